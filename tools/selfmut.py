#!/usr/bin/env python3
"""Mutation self-test: apply each listed one-line change to a scratch copy of the library (never to /repo),
run the quick check of the property against the copy (VERIF_REPO) and report whether a *new* violation
(one not matched by known_findings.json) is raised.

usage: tools/selfmut.py tools/mutations/C20.json [--only NAME]
The scratch copy lives under /tmp and is removed at the end.
"""
import json
import os
import shutil
import subprocess
import sys

ROOT = os.path.dirname(os.path.dirname(os.path.abspath(__file__)))


def main():
    spec = json.load(open(sys.argv[1]))
    only = sys.argv[3] if len(sys.argv) > 3 and sys.argv[2] == "--only" else None
    prop = spec["property"]
    scratch = "/tmp/sfmut_%s_%d" % (prop, os.getpid())
    results = {}
    try:
        for m in spec["mutations"]:
            if only and m["name"] != only:
                continue
            shutil.rmtree(scratch, ignore_errors=True)
            os.makedirs(scratch)
            shutil.copytree("/repo/strawberryfields", scratch + "/strawberryfields",
                            ignore=shutil.ignore_patterns("__pycache__"))
            path = scratch + "/" + m["file"]
            src = open(path, newline="").read()
            if src.count(m["old"]) != 1:
                results[m["name"]] = "NOT-APPLICABLE (pattern occurs %d times)" % src.count(m["old"])
                print(m["name"], results[m["name"]], flush=True)
                continue
            open(path, "w", newline="").write(src.replace(m["old"], m["new"]))
            env = dict(os.environ, VERIF_REPO=scratch, VERIF_EVIDENCE_DIR=scratch + "/evidence", VERIF_REPLAY_DIR=scratch + "/replays")
            r = subprocess.run([ROOT + "/check", prop, "--tier", "quick"], env=env, capture_output=True, text=True)
            viol = [l for l in r.stdout.splitlines() if l.startswith("VIOLATION") or l.strip().startswith("locus=")]
            results[m["name"]] = "DETECTED" if r.returncode == 1 and viol else "MISSED (exit %d)" % r.returncode
            print(m["name"], results[m["name"]], "|", "; ".join(v.strip() for v in viol if "locus" in v)[:300], flush=True)
    finally:
        shutil.rmtree(scratch, ignore_errors=True)
    out = os.path.join(ROOT, "tools", "mutations", prop + ".result.json")
    if not only:
        json.dump(results, open(out, "w"), indent=1)
    missed = [k for k, v in results.items() if not v.startswith("DETECTED")]
    print("missed:", missed)


if __name__ == "__main__":
    main()
