#!/usr/bin/env python3
"""covmap.py [--props C01,C02] [--tier quick] [--out tools/covmap.json]

Runs the checks with line coverage of /repo/strawberryfields switched on in every shard (VERIF_COVERAGE), combines the
data per property and prints, for the files each property is anchored in (properties.jsonl), which lines the workload
never executed.  Purpose: "a monitor says nothing about paths the workload never drives" - this shows those paths, so
generators can be widened.  Evidence and replays are redirected; nothing registered depends on this tool.
"""
import argparse
import json
import os
import shutil
import subprocess
import sys
import tempfile

ROOT = os.path.dirname(os.path.dirname(os.path.abspath(__file__)))
sys.path.insert(0, os.path.join(ROOT, ".deps"))


def main():
    ap = argparse.ArgumentParser()
    ap.add_argument("--props", default=",".join("C%02d" % i for i in range(1, 21)))
    ap.add_argument("--tier", default="quick")
    ap.add_argument("--out", default=os.path.join(ROOT, "tools", "covmap.json"))
    ap.add_argument("--show", type=int, default=0, help="print missing line ranges of anchored files")
    args = ap.parse_args()
    import coverage

    anchors = {}
    for l in open(os.path.join(ROOT, "properties.jsonl")):
        p = json.loads(l)
        anchors[p["id"]] = p["anchors"]["files"]
    summary = json.load(open(args.out)) if os.path.exists(args.out) else {}
    for prop in args.props.split(","):
        scratch = tempfile.mkdtemp(prefix="vfcov.")
        try:
            env = dict(os.environ, VERIF_COVERAGE=os.path.join(scratch, "cov"), VERIF_EVIDENCE_DIR=os.path.join(scratch, "ev"),
                       VERIF_REPLAY_DIR=os.path.join(scratch, "rp"), COVERAGE_CORE="sysmon")
            r = subprocess.run([os.path.join(ROOT, "check"), prop, "--tier", args.tier], env=env, capture_output=True, text=True)
            c = coverage.Coverage(data_file=os.path.join(scratch, "cov", "cov"), config_file=False)
            c.combine()
            c.save()
            data = c.get_data()
            per = {}
            for f in anchors[prop]:
                path = os.path.join("/repo", f)
                if not os.path.exists(path):
                    continue
                try:
                    _, stmts, _, missing, _ = c.analysis2(path)
                except Exception as e:  # file never imported
                    per[f] = {"statements": None, "missing": None, "note": str(e)[:80]}
                    continue
                per[f] = {"statements": len(stmts), "executed": len(stmts) - len(missing), "missing": missing}
            summary[prop] = {"exit": r.returncode, "tier": args.tier, "files": per}
            print(prop, "exit", r.returncode, " ".join("%s:%s/%s" % (os.path.basename(f), v.get("executed"), v.get("statements")) for f, v in per.items()), flush=True)
        finally:
            shutil.rmtree(scratch, ignore_errors=True)
    json.dump(summary, open(args.out, "w"), indent=0)


if __name__ == "__main__":
    main()
