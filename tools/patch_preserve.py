#!/usr/bin/env python3
"""patch_preserve.py FILE OLD_FILE NEW_FILE : replace exactly one occurrence of OLD text by NEW text, preserving CRLF/LF."""
import sys
path, oldf, newf = sys.argv[1:4]
raw = open(path, 'rb').read()
crlf = b'\r\n' in raw
s = raw.decode().replace('\r\n', '\n')
old = open(oldf).read(); new = open(newf).read()
assert s.count(old) == 1, "old text occurs %d times" % s.count(old)
s = s.replace(old, new)
if crlf: s = s.replace('\n', '\r\n')
open(path, 'wb').write(s.encode())
print("patched", path, "crlf" if crlf else "lf")
