#!/usr/bin/env python3
"""seed_eval.py <seed-name> <worktree> <property>[:tier] [more checks...]

Copies <worktree>/seeded/{patch.diff,demo.py,meta.json} to /verif/seeded/<seed-name>/, confirms the demonstration
(passes on a copy of the unchanged library, fails on a copy with the change), runs the given checks against the changed
copy (VERIF_REPO) and records what was observed in meta.json.  /repo itself is never modified (see seedlib.py).
"""
import json
import os
import shutil
import sys

sys.path.insert(0, os.path.dirname(os.path.abspath(__file__)))
import seedlib  # noqa: E402

name, wt, props = sys.argv[1], sys.argv[2], sys.argv[3:]
dst = os.path.join(seedlib.ROOT, "seeded", name)
os.makedirs(dst, exist_ok=True)
for f in ("patch.diff", "demo.py", "meta.json"):
    s = os.path.join(wt, "seeded", f)
    if os.path.abspath(s) != os.path.abspath(os.path.join(dst, f)):
        shutil.copy(s, os.path.join(dst, f))
meta = json.load(open(os.path.join(dst, "meta.json")))
conf = {}
with seedlib.scratch_repo() as clean:
    rc0, out0 = seedlib.run_demo(os.path.join(dst, "demo.py"), clean)
    conf["demo_unchanged_exit"] = rc0
    conf["demo_unchanged_tail"] = out0.strip().splitlines()[-2:]
with seedlib.scratch_repo(os.path.join(dst, "patch.diff")) as changed:
    rc1, out1 = seedlib.run_demo(os.path.join(dst, "demo.py"), changed)
    conf["demo_changed_exit"] = rc1
    conf["demo_changed_tail"] = out1.strip().splitlines()[-3:]
    print("demo: unchanged exit", rc0, "changed exit", rc1, flush=True)
    conf["checks"] = {}
    for p in props:
        tier = "quick"
        if ":" in p:
            p, tier = p.split(":")
        res = seedlib.run_check(p, changed, tier)
        conf["checks"]["%s:%s" % (p, tier)] = res
        print(p, tier, "exit", res["exit"], "violations", res["violations"], res["signatures"][:4], res["inconclusive"], flush=True)
meta["confirmed_by_main_session"] = conf
meta["detected"] = any(v["exit"] == 1 and v["violations"] for v in conf.get("checks", {}).values())
json.dump(meta, open(os.path.join(dst, "meta.json"), "w"), indent=1)
print("demo unchanged exit", rc0, "changed exit", conf.get("demo_changed_exit"), "detected", meta["detected"])
