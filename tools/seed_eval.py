#!/usr/bin/env python3
"""seed_eval.py <seed-name> <worktree> <property> [more checks...]
Copies <worktree>/seeded/{patch.diff,demo.py,meta.json} to /verif/seeded/<seed-name>/, confirms the demonstration
(fails with the change, passes without), applies the patch to /repo, runs the quick checks of the given properties,
reverts /repo and records what was observed in meta.json."""
import json, os, shutil, subprocess, sys
name, wt, props = sys.argv[1], sys.argv[2], sys.argv[3:]
dst = os.path.join("/verif/seeded", name)
os.makedirs(dst, exist_ok=True)
for f in ("patch.diff", "demo.py", "meta.json"):
    shutil.copy(os.path.join(wt, "seeded", f), os.path.join(dst, f))
meta = json.load(open(os.path.join(dst, "meta.json")))
def run(cmd, cwd=None, env=None, timeout=3600):
    p = subprocess.run(cmd, shell=True, cwd=cwd, env=env, capture_output=True, text=True, timeout=timeout)
    return p.returncode, (p.stdout + p.stderr)
assert run("git -C /repo status --porcelain")[1].strip() == "", "/repo not clean"
env = dict(os.environ, PYTHONPATH="/repo")
rc0, out0 = run("/venv/bin/python -W ignore %s/demo.py" % dst, cwd="/repo", env=env)
rc, out = run("git -C /repo apply %s/patch.diff" % dst)
assert rc == 0, out
conf = {"demo_unchanged_exit": rc0}
try:
    rc1, out1 = run("/venv/bin/python -W ignore %s/demo.py" % dst, cwd="/repo", env=env)
    conf["demo_changed_exit"] = rc1
    conf["demo_changed_tail"] = out1.strip().splitlines()[-3:]
    conf["checks"] = {}
    for p in props:
        tier = "quick"
        if ":" in p:
            p, tier = p.split(":")
        rcc, outc = run("./check %s --tier %s" % (p, tier), cwd="/verif")
        viol = [l for l in outc.splitlines() if l.startswith("VIOLATION")]
        sigs = [l.strip() for l in outc.splitlines() if l.strip().startswith("locus=")]
        conf["checks"]["%s:%s" % (p, tier)] = {"exit": rcc, "violations": len(viol), "signatures": sigs[:6]}
        print(p, tier, "exit", rcc, "violations", len(viol), sigs[:3])
finally:
    run("git -C /repo checkout -- .")
assert run("git -C /repo status --porcelain")[1].strip() == ""
meta["confirmed_by_main_session"] = conf
meta["detected"] = any(v["exit"] == 1 for v in conf.get("checks", {}).values())
json.dump(meta, open(os.path.join(dst, "meta.json"), "w"), indent=1)
print("demo unchanged exit", rc0, "changed exit", conf.get("demo_changed_exit"), "detected", meta["detected"])
