#!/usr/bin/env python3
"""Re-run every kept seeded change against the *current* checks.

For each /verif/seeded/<name>/: apply patch.diff to a scratch copy of the library (never to /repo), run the quick check
of the property it targets (plus any extra properties listed in meta.json["also"]) against the copy, and record in
meta.json["regression"] the exit code and the violation signatures that are NOT matched by known_findings.json.
Prints one line per seed; exits 1 if a seed is not detected.

usage: tools/seed_regress.py [name-or-property ...] [--jobs N] [--seed S]   (N seeds evaluated concurrently; each check already
uses up to 16 processes, so N > 2 only makes sense on an otherwise idle machine)
"""
import concurrent.futures
import json
import os
import sys

sys.path.insert(0, os.path.dirname(os.path.abspath(__file__)))
import seedlib  # noqa: E402

ROOT = seedlib.ROOT


VSEED = [0]  # VERIF_SEED of the checks; a non-zero seed is a robustness probe and does not rewrite meta.json


def one(name):
    d = os.path.join(ROOT, "seeded", name)
    meta = json.load(open(os.path.join(d, "meta.json")))
    props = [meta["property"]] + (list(meta.get("also", [])) if VSEED[0] == 0 else [])
    try:
        with seedlib.scratch_repo(os.path.join(d, "patch.diff")) as changed:
            res = {p: seedlib.run_check(p, changed, seed=VSEED[0]) for p in props}
    except RuntimeError as e:
        if VSEED[0] == 0:
            meta["regression"] = {"status": str(e)}
            json.dump(meta, open(os.path.join(d, "meta.json"), "w"), indent=1)
        return name, None, str(e)
    det = any(v["exit"] == 1 and v["signatures"] for v in res.values())
    if VSEED[0] == 0:
        meta["regression"] = {"detected": det, "checks": res}
        json.dump(meta, open(os.path.join(d, "meta.json"), "w"), indent=1)
    return name, det, {p: (v["exit"], len(v["signatures"])) for p, v in res.items()}


def main():
    argv = sys.argv[1:]
    jobs = 1
    if "--jobs" in argv:
        i = argv.index("--jobs")
        jobs = int(argv[i + 1])
        del argv[i:i + 2]
    if "--seed" in argv:
        i = argv.index("--seed")
        VSEED[0] = int(argv[i + 1])
        del argv[i:i + 2]
    names = [n for n in sorted(os.listdir(os.path.join(ROOT, "seeded")))
             if not argv or n in argv or n.split("-")[0] in argv]
    bad = 0
    with concurrent.futures.ThreadPoolExecutor(max_workers=jobs) as ex:
        for name, det, info in ex.map(one, names):
            print(name, "DETECTED" if det else ("MISSED" if det is not None else "PATCH-DOES-NOT-APPLY"), info, flush=True)
            if not det:
                bad += 1
    return 1 if bad else 0


if __name__ == "__main__":
    sys.exit(main())
