#!/usr/bin/env python3
"""Re-run every kept seeded change against the *current* checks.

For each /verif/seeded/<name>/: apply patch.diff to /repo, run the quick check of the property it targets (plus any
extra properties listed in meta.json["also"]), revert /repo, and record in meta.json["regression"] the exit code and the
violation signatures that are NOT matched by known_findings.json.  Prints one line per seed; exits 1 if a seed that was
recorded as detected is no longer detected.  /repo must be clean before and is clean afterwards.
"""
import json
import os
import subprocess
import sys

ROOT = os.path.dirname(os.path.dirname(os.path.abspath(__file__)))


def sh(*a, **k):
    return subprocess.run(a, capture_output=True, text=True, **k)


def main():
    only = sys.argv[1:]
    if sh("git", "-C", "/repo", "status", "--porcelain").stdout.strip():
        print("/repo is not clean")
        return 2
    bad = 0
    for name in sorted(os.listdir(os.path.join(ROOT, "seeded"))):
        d = os.path.join(ROOT, "seeded", name)
        if only and name not in only and name.split("-")[0] not in only:
            continue
        meta = json.load(open(os.path.join(d, "meta.json")))
        props = [meta["property"]] + list(meta.get("also", []))
        r = sh("git", "-C", "/repo", "apply", os.path.join(d, "patch.diff"))
        if r.returncode:
            print(name, "PATCH-DOES-NOT-APPLY", r.stderr.strip()[:200])
            meta["regression"] = {"status": "patch does not apply to the current tree"}
            json.dump(meta, open(os.path.join(d, "meta.json"), "w"), indent=1)
            bad += 1
            continue
        try:
            res = {}
            env = dict(os.environ, VERIF_EVIDENCE_DIR="/tmp/seedreg_ev", VERIF_REPLAY_DIR="/tmp/seedreg_rp")
            for p in props:
                c = sh(os.path.join(ROOT, "check"), p, "--tier", "quick", env=env)
                sigs = [l.strip() for l in c.stdout.splitlines() if l.strip().startswith("locus=")]
                res[p] = {"exit": c.returncode, "signatures": sigs[:6]}
        finally:
            sh("git", "-C", "/repo", "checkout", "--", ".")
            sh("rm", "-rf", "/tmp/seedreg_ev", "/tmp/seedreg_rp")
        det = any(v["exit"] == 1 and v["signatures"] for v in res.values())
        meta["regression"] = {"detected": det, "checks": res}
        json.dump(meta, open(os.path.join(d, "meta.json"), "w"), indent=1)
        print(name, "DETECTED" if det else "MISSED", {p: (v["exit"], len(v["signatures"])) for p, v in res.items()}, flush=True)
        if not det:
            bad += 1
    return 1 if bad else 0


if __name__ == "__main__":
    sys.exit(main())
