#!/usr/bin/env python3
"""Regenerates the tables between the GENERATED markers of DESIGN.md from the committed data:
known_findings.json, seeded/*/meta.json, tools/mutations/*.result.json, tools/claimed.json."""
import glob
import json
import os
import re
import subprocess

ROOT = os.path.dirname(os.path.dirname(os.path.abspath(__file__)))


def esc(s):
    return str(s).replace("|", "\\|").replace("\n", " ")


def findings_tables():
    d = json.load(open(os.path.join(ROOT, "known_findings.json")))["findings"]
    subjects = {}
    for l in subprocess.run(["git", "-C", "/repo", "log", "--format=%h %s"], capture_output=True, text=True).stdout.splitlines():
        h, _, s = l.partition(" ")
        subjects[h] = s
    out = ["**Repaired (`fix:` commits in /repo, in known_findings.json as `fixed`)**", "",
           "| property | commit | what failed (check signature: locus / kind) |", "|---|---|---|"]
    for f in d:
        if f["status"] == "fixed":
            what = re.sub(r"^fixed:\s*property=\S+\s*", "", f["what"])
            out.append("| %s | %s | %s (`%s` / `%s`) |" % (f["property"], f.get("commit", ""), esc(what)[:330], f["locus"], f["kind"]))
    out += ["", "**Recorded, not repaired (`known`; the check prints `KNOWN-FINDING:` and exits 0)**", "",
            "| property | id | mechanism signature | why not repaired / what fails |", "|---|---|---|---|"]
    for f in d:
        if f["status"] == "known":
            out.append("| %s | %s | `%s` / `%s` | %s |" % (f["property"], f["id"], f["locus"], f["kind"], esc(f["what"])[:420]))
    return "\n".join(out)


def seeded_table():
    out = ["| seeded change | property | what it breaks | detected by (quick tier, current checks) | note |", "|---|---|---|---|---|"]
    for d in sorted(glob.glob(os.path.join(ROOT, "seeded", "*"))):
        m = json.load(open(os.path.join(d, "meta.json")))
        reg = m.get("regression", {})
        det = []
        for p, v in reg.get("checks", {}).items():
            if v["exit"] == 1:
                kinds = sorted({re.sub(r" occurrences=\d+", "", s).replace("locus=", "").replace(" kind=", " / ") for s in v["signatures"]})
                det.append("%s: %s" % (p, "; ".join("`%s`" % k for k in kinds[:3])))
        out.append("| %s | %s | %s | %s | %s |" % (os.path.basename(d), m["property"], esc(m.get("summary", ""))[:260],
                                                  "<br>".join(det) if det else "**not detected**",
                                                  esc(m.get("strengthening", ""))[:300]))
    return "\n".join(out)


def mutation_table():
    out = ["| property | deliberate one-line breaks | detected | not detected |", "|---|---|---|---|"]
    for f in sorted(glob.glob(os.path.join(ROOT, "tools", "mutations", "*.result.json"))):
        prop = os.path.basename(f).split(".")[0]
        res = json.load(open(f))
        spec = json.load(open(f.replace(".result.json", ".json")))
        eq = spec.get("equivalent_under_property", {})
        det = [k for k, v in res.items() if v.startswith("DETECTED")]
        miss = [k for k, v in res.items() if not v.startswith("DETECTED")]
        out.append("| %s | %d | %d | %s |" % (prop, len(res), len(det), "; ".join(
            "%s (%s)" % (k, esc(eq.get(k, "unexplained"))) for k in miss) or "none"))
    return "\n".join(out)


def main():
    p = os.path.join(ROOT, "DESIGN.md")
    s = open(p).read()
    for name, fn in (("findings", findings_tables), ("seeded", seeded_table), ("mutations", mutation_table)):
        a, b = "<!-- BEGIN GENERATED:%s -->" % name, "<!-- END GENERATED:%s -->" % name
        if a in s and b in s:
            s = s[: s.index(a) + len(a)] + "\n" + fn() + "\n" + s[s.index(b):]
    open(p, "w").write(s)


if __name__ == "__main__":
    main()
