#!/usr/bin/env python3
"""Regenerates MANIFEST.json from the table below (kept valid against /root/.vp/MANIFEST.schema.json)."""
import json, os, subprocess
HERE = os.path.dirname(os.path.dirname(os.path.abspath(__file__)))
props = [json.loads(l) for l in open(os.path.join(HERE, "properties.jsonl"))]
base = json.load(open("/root/.vp/BASELINE.json"))["cmd"] if os.path.exists("/root/.vp/BASELINE.json") else \
    "cd /repo && /venv/bin/python -m pytest -ra -q -p no:cacheprovider --timeout=900 --continue-on-collection-errors --junitxml=<file>"

# property -> (technique, level text, level note, design ref)
CLAIMED = json.load(open(os.path.join(HERE, "tools", "claimed.json")))

try:
    fixes = subprocess.run(["git", "-C", "/repo", "log", "--format=%h %s", "--grep=^fix:"], capture_output=True, text=True).stdout.strip().splitlines()
except Exception:
    fixes = []

m = {
    "version": 1,
    "setup_cmd": "./setup.sh",
    "hooks": {
        "guard": "SF_VERIF",
        "enable": "no in-repo hooks are needed: every monitor is attached from the harness by wrapping public names inside the check process (the runner exports SF_VERIF=1 for symmetry; the repository never reads it)",
        "baseline_off_cmd": "cd /repo && env -u SF_VERIF " + base.split("&&", 1)[1].strip().replace("<file>", "/root/.vp/out/baseline_off.junit.xml"),
        "source_commits": [],
        "add_only": True,
    },
    "engines": [
        {"name": "vf", "path": "vf/", "serves_properties": sorted(CLAIMED.keys()),
         "kind_free_text": "runtime monitors (history checkers, invariants at hooks, icontract postconditions, RNG-boundary taps, legal-schedule perturbation) driven by seeded hostile workloads against the real code, with independent reference models (RefGauss phase-space, RefFock dense) as oracles"}
    ],
    "checks": [],
    "not_applicable": [],
    "notes": "All checks: ./check <ID> --tier quick|thorough [--seed N] [--replay FILE]; honour VERIF_SEED / VERIF_TIER; import strawberryfields from /repo's working tree (VERIF_REPO overrides). Exit 0 held on what was observed (KNOWN-FINDING lines for entries of known_findings.json), 1 violation, 3 inconclusive. Genuine defects repaired in /repo: " + "; ".join(fixes),
}
for p in props:
    pid = p["id"]
    if pid in CLAIMED:
        c = CLAIMED[pid]
        m["checks"].append({
            "property_id": pid,
            "quick_cmd": "./check %s --tier quick" % pid,
            "thorough_cmd": "./check %s --tier thorough" % pid,
            "evidence_file": "evidence/%s.json" % pid,
            "replay_cmd_template": "./check %s --replay {path}" % pid,
            "engine": "vf",
            "level_claimed": {"category": "exploration", "text": c["text"], "design_ref": c.get("design_ref", "DESIGN.md section 4, " + pid)},
            "level_note": c["note"],
            "technique": c["technique"],
        })
    else:
        m["not_applicable"].append({"property_id": pid, "reason": "check under construction in this session (see DESIGN.md section 4); not yet claimed"})
json.dump(m, open(os.path.join(HERE, "MANIFEST.json"), "w"), indent=1)
try:
    import jsonschema
    jsonschema.validate(m, json.load(open("/root/.vp/MANIFEST.schema.json")))
    print("MANIFEST.json valid; claimed:", sorted(CLAIMED))
except ImportError:
    print("written (jsonschema not importable here)")
