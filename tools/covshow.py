#!/usr/bin/env python3
"""covshow.py C19 [file-substring] : missing lines of the anchored files (from tools/covmap.json) grouped by function."""
import ast
import json
import os
import sys

ROOT = os.path.dirname(os.path.dirname(os.path.abspath(__file__)))
cm = json.load(open(os.path.join(ROOT, "tools", "covmap.json")))
prop = sys.argv[1]
sub = sys.argv[2] if len(sys.argv) > 2 else ""
for f, v in cm[prop]["files"].items():
    if sub not in f or not v.get("missing"):
        continue
    src = open(os.path.join("/repo", f)).read()
    tree = ast.parse(src)
    spans = []
    for node in ast.walk(tree):
        if isinstance(node, (ast.FunctionDef, ast.AsyncFunctionDef)):
            spans.append((node.lineno, node.end_lineno, node.name))
    parents = {}
    for node in ast.walk(tree):
        if isinstance(node, ast.ClassDef):
            for ch in node.body:
                if isinstance(ch, ast.FunctionDef):
                    parents[(ch.lineno, ch.name)] = node.name
    by = {}
    for ln in v["missing"]:
        best = None
        for a, b, n in spans:
            if a <= ln <= b and (best is None or a > best[0]):
                best = (a, b, n)
        key = "<module>" if best is None else "%s%s@%d" % ((parents.get((best[0], best[2]), "") + ".") if (best[0], best[2]) in parents else "", best[2], best[0])
        by.setdefault(key, []).append(ln)
    print("== %s  executed %s/%s" % (f, v["executed"], v["statements"]))
    for k, ls in sorted(by.items(), key=lambda kv: kv[1][0]):
        print("   %-50s %d lines: %s" % (k, len(ls), ",".join(map(str, ls[:14])) + ("..." if len(ls) > 14 else "")))
