#!/usr/bin/env python3
"""sweep.py --tier quick|thorough --seeds 1,2,3 [--props C01,C02] [--hashseed random]

Runs the registered checks on the tree in $VERIF_REPO (default /repo) for several seeds, with evidence and replays
redirected to a scratch directory (so the committed evidence is not disturbed), and prints one line per run:
    <prop> <tier> seed=<n> exit=<rc> wall=<s>  [first VIOLATION / INCONCLUSIVE lines]
Exit 1 if any run did not exit 0.  Used before registering a changed check: the unchanged tree must be silent on every
seed of both tiers.
"""
import argparse
import os
import shutil
import subprocess
import sys
import tempfile
import time

ROOT = os.path.dirname(os.path.dirname(os.path.abspath(__file__)))


def main():
    ap = argparse.ArgumentParser()
    ap.add_argument("--tier", default="quick")
    ap.add_argument("--seeds", default="1,2,3")
    ap.add_argument("--props", default=",".join("C%02d" % i for i in range(1, 21)))
    ap.add_argument("--hashseed", default="0")
    ap.add_argument("--keep", default="", help="directory to keep replays of violations in")
    args = ap.parse_args()
    bad = 0
    scratch = tempfile.mkdtemp(prefix="vfsweep.")
    try:
        for seed in [int(s) for s in args.seeds.split(",")]:
            for prop in args.props.split(","):
                env = dict(os.environ, VERIF_SEED=str(seed), VERIF_EVIDENCE_DIR=os.path.join(scratch, "ev"),
                           VERIF_REPLAY_DIR=args.keep or os.path.join(scratch, "rp"))
                if args.hashseed == "random":
                    env.pop("PYTHONHASHSEED", None)
                    env["PYTHONHASHSEED"] = str(int.from_bytes(os.urandom(2), "big"))
                else:
                    env["PYTHONHASHSEED"] = args.hashseed
                t0 = time.time()
                p = subprocess.run([os.path.join(ROOT, "check"), prop, "--tier", args.tier, "--seed", str(seed)],
                                   env=env, capture_output=True, text=True)
                notes = [l.strip() for l in p.stdout.splitlines()
                         if l.startswith(("VIOLATION", "INCONCLUSIVE", "EVIDENCE-SCHEMA")) or l.strip().startswith(("locus=", "what:", "shard failure"))]
                print("%s %s seed=%d hash=%s exit=%d wall=%.0f %s" % (prop, args.tier, seed, env["PYTHONHASHSEED"], p.returncode,
                                                                 time.time() - t0, " | ".join(notes)[:1500]), flush=True)
                if p.returncode != 0:
                    bad += 1
                    sys.stdout.write(p.stdout[-3000:] + "\n")
                    sys.stdout.flush()
    finally:
        shutil.rmtree(scratch, ignore_errors=True)
    print("SWEEP done bad=%d" % bad)
    return 1 if bad else 0


if __name__ == "__main__":
    sys.exit(main())
