"""Shared helpers for the seeded-change tools: scratch copies of the library with a patch applied.

The patch of a seeded change is never applied to /repo by these tools: a copy of /repo/strawberryfields is made under
/tmp, the patch applied there (git apply works outside a repository), and the checks are pointed at the copy with
VERIF_REPO (the editable install's finder comes after sys.path, see vf/common.py).  Evidence and replays of such runs go
to the scratch directory, never to /verif/evidence.  Everything is removed afterwards.
"""
import contextlib
import os
import shutil
import subprocess
import tempfile

ROOT = os.path.dirname(os.path.dirname(os.path.abspath(__file__)))


def sh(cmd, **k):
    k.setdefault("capture_output", True)
    k.setdefault("text", True)
    return subprocess.run(cmd, shell=isinstance(cmd, str), **k)


@contextlib.contextmanager
def scratch_repo(patch=None, src="/repo"):
    d = tempfile.mkdtemp(prefix="sfseed.")
    try:
        shutil.copytree(os.path.join(src, "strawberryfields"), os.path.join(d, "strawberryfields"),
                        ignore=shutil.ignore_patterns("__pycache__"))
        if patch:
            r = sh(["git", "apply", "--whitespace=nowarn", os.path.abspath(patch)], cwd=d)
            if r.returncode:
                raise RuntimeError("patch does not apply: " + r.stderr.strip()[:300])
        yield d
    finally:
        shutil.rmtree(d, ignore_errors=True)


def run_demo(demo, repo_dir, timeout=1800):
    env = dict(os.environ, PYTHONPATH=repo_dir)
    r = sh(["/venv/bin/python", "-W", "ignore", os.path.abspath(demo)], cwd=repo_dir, env=env, timeout=timeout)
    return r.returncode, (r.stdout + r.stderr)


def run_check(prop, repo_dir, tier="quick", seed=0):
    env = dict(os.environ, VERIF_REPO=repo_dir, VERIF_EVIDENCE_DIR=os.path.join(repo_dir, "_ev"),
               VERIF_REPLAY_DIR=os.path.join(repo_dir, "_rp"), VERIF_SEED=str(seed))
    r = sh([os.path.join(ROOT, "check"), prop, "--tier", tier, "--seed", str(seed)], env=env)
    sigs = [l.strip() for l in r.stdout.splitlines() if l.strip().startswith("locus=")]
    viol = [l for l in r.stdout.splitlines() if l.startswith("VIOLATION")]
    inc = [l for l in r.stdout.splitlines() if l.startswith("INCONCLUSIVE")]
    return {"exit": r.returncode, "violations": len(viol), "signatures": sigs[:8], "inconclusive": inc[:1]}
