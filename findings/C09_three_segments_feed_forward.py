import strawberryfields as sf
from strawberryfields import ops
import numpy as np
np.random.seed(1)
A = sf.Program(2)
with A.context as q:
    ops.Squeezed(0.5) | q[0]
    ops.MeasureX | q[0]
B = sf.Program(A)
with B.context as q:
    ops.Rgate(0.3) | q[1]
C = sf.Program(B)
with C.context as q:
    ops.Xgate(q[0].par) | q[1]
eng = sf.Engine("gaussian")
try:
    r = eng.run([A, B, C])
    print("list ok", r.state.means())
except Exception as e:
    print("list raised", type(e).__name__, e)
eng = sf.Engine("gaussian")
try:
    eng.run(A); eng.run(B); r = eng.run(C)
    print("successive ok", r.state.means())
except Exception as e:
    print("successive raised", type(e).__name__, e)
# concatenated
P = sf.Program(2)
with P.context as q:
    ops.Squeezed(0.5) | q[0]
    ops.MeasureX | q[0]
    ops.Rgate(0.3) | q[1]
    ops.Xgate(q[0].par) | q[1]
eng = sf.Engine("gaussian")
r = eng.run(P); print("concat ok", r.state.means())
