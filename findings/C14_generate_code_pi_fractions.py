import numpy as np
from strawberryfields.io.utils import _factor_out_pi
bad=[]
for k in range(-40,41):
    for how,v in (("k*pi/12", k*np.pi/12), ("pi/12*k", np.pi/12*k), ("pi*k/12", np.pi*k/12), ("(k/12)*pi",(k/12)*np.pi), ("below", k*np.pi/12*(1-3e-9)), ("above", k*np.pi/12*(1+3e-9))):
        s=_factor_out_pi([float(v)])
        got=eval(s,{"np":np})
        if abs(got-v)>1e-6*max(1,abs(v)): bad.append((k,how,float(v),s,got))
print(len(bad)); 
for b in bad[:25]: print(b)
