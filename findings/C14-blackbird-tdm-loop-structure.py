"""Witness for F-io-blackbird-tdm-loop-structure (C14): a two-loop TDM program written to Blackbird text is read back as a
single-loop program.  Run with /venv/bin/python; prints both N values and the unrolled circuits' lengths / shifts."""
import strawberryfields as sf
from strawberryfields import ops

prog = sf.TDMProgram(N=[1, 2])
with prog.context([0.1, 0.2], [0.3, 0.4]) as (p, q):
    ops.Sgate(0.5, p[0]) | q[2]
    ops.BSgate(p[1], 0.3) | (q[1], q[2])
    ops.MeasureHomodyne(p[0]) | q[0]
text = sf.io.to_blackbird(prog).serialize()
back = sf.io.loads(text, ir="blackbird")
print(text)
print("N written:", prog.N, " N read back:", back.N)
assert back.N != prog.N  # the defect: loop structure (register shifts of unroll()) is lost
xir_back = sf.io.loads(sf.io.to_xir(prog).serialize(), ir="xir")
print("XIR keeps it:", xir_back.N)
assert xir_back.N == prog.N
