"""Witness for F-vibronic-squeezing-sign (property C20).

One vibrational mode, initial frequency 1000 cm^-1, final frequency 2000 cm^-1, Duschinsky matrix 1,
dimensionless displacement delta = 1 (in units of the final-state oscillator, as documented).  The
Franck-Condon factor |<0'|0>|^2 has the closed form

    2 sqrt(w w') / (w + w') * exp(-delta^2 w / (w + w'))  =  0.67555...

The state programmed by gbs_params + VibronicTransition gives 0.48405..., which is the value for the
*swapped* frequencies: gbs_params returns r = +log(sigma) for the singular values of
J = sqrt(w') Ud / sqrt(w), and Sgate(r) with r > 0 squeezes x (x -> e^-r x), whereas the Duschinsky
relation x' = J x + delta needs x -> sigma x.
"""
import numpy as np
import strawberryfields as sf
from strawberryfields.apps.qchem import vibronic

w, wp, Ud, delta = np.array([1000.0]), np.array([2000.0]), np.array([[1.0]]), np.array([1.0])
t, U1, r, U2, alpha = vibronic.gbs_params(w, wp, Ud, delta, 0)
prog = sf.Program(1)
with prog.context as q:
    vibronic.VibronicTransition(U1, r, U2, alpha) | q
state = sf.Engine("gaussian").run(prog).state
exact = 2 * np.sqrt(w[0] * wp[0]) / (w[0] + wp[0]) * np.exp(-delta[0] ** 2 * w[0] / (w[0] + wp[0]))
print("library  |<0'|0>|^2 =", state.fock_prob([0]))
print("analytic |<0'|0>|^2 =", exact)
print("variance of x' in the programmed state:", state.cov()[0, 0] / sf.hbar, "(Duschinsky: w'/(2w) = 1.0)")
