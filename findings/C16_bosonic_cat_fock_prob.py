"""Witness for F-bosonic-complex-means-fock (properties C16 / C01), repaired in /repo.

An even cat state contains only even photon numbers.  Before the repair the bosonic state object reported
P(1) = 0.36 for |alpha| = 0.9 (and reduced_dm disagreed with the analytic amplitudes by 0.36), while mean_photon,
parity and the fidelities of the same object, and the Fock backend, were right.
"""
import math
import numpy as np
import strawberryfields as sf
from strawberryfields import ops

a = 0.9
prog = sf.Program(1)
with prog.context as q:
    ops.Catstate(a, 0.0, 0) | q[0]
state = sf.Engine("bosonic").run(prog).state
c = np.array([(a ** n + (-a) ** n) / math.sqrt(math.factorial(n)) for n in range(10)])
c = c / np.linalg.norm(c)
print("analytic P(n):", np.round(c ** 2, 4))
print("bosonic  P(n):", np.round([state.fock_prob([n]) for n in range(9)], 4))
print("max |reduced_dm - analytic| =", np.max(np.abs(state.reduced_dm([0], cutoff=10) - np.outer(c, c))))
