import strawberryfields as sf, numpy as np
from strawberryfields import ops
from strawberryfields.io.utils import generate_code
def show(p, eng=None):
    try:
        print(generate_code(p, eng)); print("-----")
    except Exception as e:
        print("RAISED", type(e).__name__, e); print("-----")
p = sf.Program(3)
with p.context as q:
    ops.Sgate(0.4, 0.2).H | q[1]
    ops.BSgate(np.pi/4, 0.1) | (q[2], q[0])
    ops.MeasureHomodyne(0.3, select=0.2) | q[0]
    ops.Xgate(q[0].par * 2) | q[1]
    ops.MeasureFock(select=[1]) | q[2]
show(p)
p = sf.Program(2)
with p.context as q:
    ops.Interferometer(np.array([[0,1],[1,0]])) | (q[0], q[1])
    ops.Rgate(p.params("a")) | q[0]
    ops.Del | q[1]
show(p, sf.Engine("gaussian"))
