import strawberryfields as sf, numpy as np
from strawberryfields import ops
for phi in (0.4, 2.5, -2.0, np.pi):
    p = sf.Program(2)
    with p.context as q:
        ops.Sgate(0.5, phi) | q[0]
        ops.Dgate(0.3, 0.2) | q[1]
    st = sf.Engine("gaussian").run(p).state
    (r, ph) = st.squeezing([0])[0]
    print("prepared phi=%.3f  ->  squeezing() = (%.4f, %.4f)" % (phi, r, ph), " cov_xx %.4f cov_pp %.4f" % (st.cov()[0,0], st.cov()[2,2]))
b = sf.Engine("bosonic")
p = sf.Program(2)
with p.context as q:
    ops.Dgate(0.3, 0.2) | q[0]
    ops.Dgate(0.5, 1.2) | q[1]
st = b.run(p).state
print("bosonic displacement([0,1])", st.displacement([0,1]), "([1,0])", st.displacement([1,0]))
