"""Witness for F-gaussian-merge-no-termination (C11 / C04), repaired by /repo commit 2c3d144.
On the pinned snapshot Program.compile(compiler="gaussian_merge") never returns for this four-gate hybrid circuit: Dgate|q1's
successor (the interferometer) is collected, Dgate|q2 is prepended as the interferometer's other Gaussian predecessor, the
interferometer is then dropped (its predecessor CKgate touches q1), and the remaining group {Dgate|q1, Dgate|q2} is "merged"
into the same two gates for ever.  Exit 0 = compile returned, exit 1 = no return within 30 s."""
import signal
import sys

import numpy as np
import strawberryfields as sf
from strawberryfields import ops

U = np.array([[1, 1, 1], [1, np.exp(2j * np.pi / 3), np.exp(4j * np.pi / 3)], [1, np.exp(4j * np.pi / 3), np.exp(2j * np.pi / 3)]]) / np.sqrt(3)
prog = sf.Program(3)
with prog.context as q:
    ops.CKgate(0.3) | (q[0], q[1])
    ops.Dgate(0.2) | q[1]
    ops.Dgate(0.1) | q[2]
    ops.Interferometer(U) | (q[0], q[1], q[2])


def onalarm(*a):
    print("gaussian_merge did not return within 30 s")
    sys.exit(1)


signal.signal(signal.SIGALRM, onalarm)
signal.alarm(30)
print("compiled to", [str(c) for c in prog.compile(compiler="gaussian_merge").circuit])
