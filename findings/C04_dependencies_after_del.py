import strawberryfields as sf
from strawberryfields import ops
p = sf.Program(2)
with p.context as q:
    ops.MeasureX | q[0]
    ops.Dgate(q[0].par) | q[0]
    ops.Del | q[0]
try:
    o = p.optimize(); print("optimize ok", [str(c) for c in o.circuit])
except Exception as e:
    print("optimize raised", type(e).__name__, e)
try:
    c = p.compile(compiler="gaussian"); print("compile ok")
except Exception as e:
    print("compile raised", type(e).__name__, e)
# variant: dependency on another (deleted) mode
p = sf.Program(2)
with p.context as q:
    ops.MeasureX | q[0]
    ops.Dgate(q[0].par) | q[1]
    ops.Del | q[0]
for c in p.circuit: print(c, [ (r.ind, r.active) for r in c.get_dependencies()])
try:
    o = p.optimize(); print("optimize ok", [str(c) for c in o.circuit])
    r = sf.Engine("gaussian").run(p); print("run ok")
except Exception as e:
    print("raised", type(e).__name__, e)
