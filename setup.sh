#!/bin/sh
# Offline setup: third-party monitor libraries into .deps (git-ignored), then reference-model self-tests.
HERE="$(cd "$(dirname "$0")" && pwd)"
cd "$HERE" || exit 1
PY="${VERIF_PYTHON:-/venv/bin/python}"
if [ ! -d .deps/icontract ]; then
  "$PY" -m pip install -q --no-index --find-links /opt/veriftools/wheels --target .deps icontract deal jsonschema || exit 1
fi
mkdir -p evidence replays .cache
PYTHONPATH="$HERE" "$PY" -W ignore -m vf.selftest || exit 1
echo "setup ok"
