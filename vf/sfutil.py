"""Helpers around the real Strawberry Fields API: building programs from JSON specs, reading command
lists back as reference-model tuples, extracting states from backends in reference conventions."""
import numpy as np

from .common import dec as jdec, setup_paths

setup_paths()
import strawberryfields as sf  # noqa: E402
from strawberryfields import ops  # noqa: E402
from strawberryfields.parameters import par_evaluate, par_is_symbolic  # noqa: E402


def make_op(spec):
    """spec = {"op": name, "p": [...], "kw": {...}, "dag": bool}"""
    cls = getattr(ops, spec["op"])
    p = [jdec(x) for x in spec.get("p", [])]
    kw = {k: jdec(v) for k, v in spec.get("kw", {}).items()}
    op = cls(*p, **kw)
    if spec.get("dag"):
        op = op.H
    return op


def build_program(n, cmds, name=None, parent=None):
    """cmds = list of {"op","p","m","dag","kw"}; "m" = ordered mode indices."""
    prog = sf.Program(parent if parent is not None else n, name=name)
    with prog.context as q:
        for c in cmds:
            if c["op"] == "New":
                ops.New(c.get("n", 1))
                continue
            if c["op"] == "Del":
                ops.Del | tuple(prog.reg_refs[i] for i in c["m"])
                continue
            op = make_op(c)
            regs = tuple(prog.reg_refs[i] for i in c["m"])
            op | (regs if len(regs) != 1 else regs[0])
    return prog


def numeric(p):
    """Evaluate a parameter list to plain numbers / arrays (no symbols expected)."""
    out = []
    for x in p:
        if par_is_symbolic(x):
            x = par_evaluate(x)
        if isinstance(x, np.ndarray) and x.dtype == object:
            x = np.array([complex(v) if np.iscomplexobj(v) else float(v) for v in x.ravel()]).reshape(x.shape)
        out.append(x)
    return out


def cmd_tuple(cmd, evaluate=True):
    """(name, params, modes, dagger) of an SF Command, for the reference models."""
    op = cmd.op
    name = type(op).__name__
    p = numeric(op.p) if evaluate else list(op.p)
    if name == "GaussianTransform":
        p = [np.asarray(p[0], dtype=float)]
    if name == "Gaussian":
        # ops.Gaussian stores V/(hbar/2) and r (hbar units) in p
        p = [np.asarray(p[0], dtype=float) * (sf.hbar / 2.0), np.asarray(p[1], dtype=float)]
    return name, p, [r.ind for r in cmd.reg], bool(getattr(op, "dagger", False))


def circuit_tuples(circuit):
    return [cmd_tuple(c) for c in circuit]


def set_hbar(h):
    sf.hbar = h


# ---------------------------------------------------------------------------------------------
# state extraction (reference conventions: hbar = 2, xxpp)
# ---------------------------------------------------------------------------------------------

def gaussian_state_mv(state):
    """(mu, V) of a BaseGaussianState in hbar=2 units, xxpp."""
    h = sf.hbar
    return np.asarray(state.means()) / np.sqrt(h / 2.0), np.asarray(state.cov()) / (h / 2.0)


def gaussian_backend_mv(backend):
    """Raw (mu, V) of all rows of a GaussianBackend's circuit (hbar=2, xxpp), including deleted rows."""
    c = backend.circuit
    return c.smeanxp().copy(), c.scovmatxp().copy()


def bosonic_components(state):
    """weights, means (xxpp), covs (xxpp) of a BaseBosonicState, hbar=2 units."""
    h = sf.hbar
    w = np.asarray(state.weights())
    m = np.asarray(state.means())
    c = np.asarray(state.covs())
    n = m.shape[1] // 2
    # bosonic states are stored in xpxp ordering
    perm = np.array(list(range(0, 2 * n, 2)) + list(range(1, 2 * n, 2)))
    m = m[:, perm] / np.sqrt(h / 2.0)
    c = c[:, perm][:, :, perm] / (h / 2.0)
    return w, m, c


def bosonic_moments(state):
    """First and second moments (mu, V) of the mixture, hbar=2, xxpp (complex parts dropped if tiny)."""
    w, m, c = bosonic_components(state)
    mu = np.einsum("k,ki->i", w, m)
    second = np.einsum("k,kij->ij", w, c) + np.einsum("k,ki,kj->ij", w, m, m)
    V = second - np.outer(mu, mu)
    return mu, V
