"""Per-shard report object: what the monitors observed, violations with mechanism signatures."""
import collections
import json
import time
import traceback

from .common import enc, fingerprint

MAX_SAMPLES = 4
MAX_VIOL_PER_SIG = 3


class Report:
    def __init__(self, prop, shard=0):
        self.prop = prop
        self.shard = shard
        self.evaluations = 0
        self.nontrivial = set()
        self.counters = collections.Counter()  # observed events by kind
        self.monitors = collections.Counter()  # oracle evaluations by monitor name
        self.sets = collections.defaultdict(set)  # distinct things seen (combos, shapes)
        self.maxdev = {}  # name -> [max deviation, budget at that point]
        self.violations = []
        self._sig_count = collections.Counter()
        self.samples = []
        self.inconclusive = collections.Counter()
        self.errors = collections.Counter()
        self.t0 = time.time()

    # -- cases -----------------------------------------------------------------------------
    def case(self, fp_obj, nontrivial, sample=None):
        """Count one executed case; fp_obj identifies it (already rounded)."""
        self.evaluations += 1
        if nontrivial:
            self.nontrivial.add(fingerprint(fp_obj, 12))
        if sample is not None and len(self.samples) < MAX_SAMPLES:
            self.samples.append(enc(sample))

    def observe(self, key, n=1):
        self.counters[key] += n

    def monitor(self, name, n=1):
        self.monitors[name] += n

    def seen(self, setname, item):
        s = self.sets[setname]
        if len(s) < 5000:
            s.add(item if isinstance(item, str) else json.dumps(enc(item), sort_keys=True))

    def dev(self, name, value, budget=None):
        value = float(value)
        cur = self.maxdev.get(name)
        if cur is None or value > cur[0]:
            self.maxdev[name] = [value, None if budget is None or budget == float("inf") else float(budget)]

    def skip(self, reason):
        self.inconclusive[reason] += 1

    def error(self, where, exc):
        self.errors["%s:%s" % (where, type(exc).__name__)] += 1
        if len(self.samples) < MAX_SAMPLES + 2 and self.errors["%s:%s" % (where, type(exc).__name__)] == 1:
            self.counters["first_error_trace:" + where] = 1
            self._last_trace = traceback.format_exc()[-1500:]

    # -- violations ------------------------------------------------------------------------
    def violation(self, locus, kind, what, case, detail=None):
        """Record a violation. (locus, kind) is the mechanism signature used for known-finding
        matching; `case` must be a JSON-able spec that `replay` can re-execute."""
        sig = (locus, kind)
        self._sig_count[sig] += 1
        if self._sig_count[sig] <= MAX_VIOL_PER_SIG:
            self.violations.append(
                {"locus": locus, "kind": kind, "what": what, "case": enc(case), "detail": enc(detail)}
            )

    # -- serialisation ---------------------------------------------------------------------
    def to_json(self):
        return {
            "prop": self.prop,
            "shard": self.shard,
            "evaluations": self.evaluations,
            "nontrivial": sorted(self.nontrivial),
            "counters": dict(self.counters),
            "monitors": dict(self.monitors),
            "sets": {k: sorted(v) for k, v in self.sets.items()},
            "maxdev": self.maxdev,
            "violations": self.violations,
            "sig_count": [[list(k), v] for k, v in self._sig_count.items()],
            "samples": self.samples,
            "inconclusive": dict(self.inconclusive),
            "errors": dict(self.errors),
            "last_trace": getattr(self, "_last_trace", None),
            "wall_s": time.time() - self.t0,
        }


def merge(reports):
    out = {
        "evaluations": 0,
        "nontrivial": set(),
        "counters": collections.Counter(),
        "monitors": collections.Counter(),
        "sets": collections.defaultdict(set),
        "maxdev": {},
        "violations": [],
        "sig_count": collections.Counter(),
        "samples": [],
        "inconclusive": collections.Counter(),
        "errors": collections.Counter(),
        "traces": [],
    }
    for r in reports:
        out["evaluations"] += r["evaluations"]
        out["nontrivial"].update(r["nontrivial"])
        out["counters"].update(r["counters"])
        out["monitors"].update(r["monitors"])
        for k, v in r["sets"].items():
            out["sets"][k].update(v)
        for k, v in r["maxdev"].items():
            if k not in out["maxdev"] or v[0] > out["maxdev"][k][0]:
                out["maxdev"][k] = v
        out["violations"].extend(r["violations"])
        for k, v in r["sig_count"]:
            out["sig_count"][tuple(k)] += v
        for s in r["samples"]:
            if len(out["samples"]) < MAX_SAMPLES:
                out["samples"].append(s)
        out["inconclusive"].update(r["inconclusive"])
        out["errors"].update(r["errors"])
        if r.get("last_trace"):
            out["traces"].append(r["last_trace"])
    return out
