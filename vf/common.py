"""Shared plumbing: locating the repository under test, third-party deps, JSON encoding of cases."""
import hashlib
import json
import os
import sys

VERIF_ROOT = os.path.dirname(os.path.dirname(os.path.abspath(__file__)))
REPO = os.environ.get("VERIF_REPO", "/repo")
DEPS = os.path.join(VERIF_ROOT, ".deps")
PYTHON = os.environ.get("VERIF_PYTHON", "/venv/bin/python")
WHEELS = "/opt/veriftools/wheels"


def ensure_deps():
    """Install icontract/deal/jsonschema offline into .deps (git-ignored) when missing."""
    marker = os.path.join(DEPS, "icontract")
    if not os.path.isdir(marker):
        import subprocess

        subprocess.run(
            [PYTHON, "-m", "pip", "install", "-q", "--no-index", "--find-links", WHEELS,
             "--target", DEPS, "icontract", "deal", "jsonschema"],
            check=True, stdout=subprocess.DEVNULL, stderr=subprocess.DEVNULL,
        )


def setup_paths():
    """Make `import strawberryfields` resolve to the working tree under test and expose .deps."""
    if REPO not in sys.path:
        sys.path.insert(0, REPO)
    if DEPS not in sys.path:
        sys.path.append(DEPS)
    if VERIF_ROOT not in sys.path:
        sys.path.insert(0, VERIF_ROOT)
    os.environ.setdefault("SF_VERIF", "1")


# ---------------------------------------------------------------------------------------------
# JSON encoding of numpy / complex values inside case specs
# ---------------------------------------------------------------------------------------------


def enc(x):
    """Encode numpy arrays / complex / numpy scalars into JSON-able structures (reversible)."""
    import numpy as np

    if isinstance(x, np.ndarray):
        if np.iscomplexobj(x):
            return {"__nd__": "c", "shape": list(x.shape), "re": x.real.ravel().tolist(),
                    "im": x.imag.ravel().tolist()}
        if x.dtype == object:
            return {"__nd__": "o", "shape": list(x.shape), "v": [enc(v) for v in x.ravel().tolist()]}
        if x.dtype == bool:
            return {"__nd__": "b", "shape": list(x.shape), "v": x.ravel().tolist()}
        if np.issubdtype(x.dtype, np.integer):
            return {"__nd__": "i", "shape": list(x.shape), "v": x.ravel().tolist()}
        return {"__nd__": "f", "shape": list(x.shape), "v": x.ravel().tolist()}
    if isinstance(x, (complex, np.complexfloating)):
        return {"__c__": [float(x.real), float(x.imag)]}
    if isinstance(x, np.bool_):
        return bool(x)
    if isinstance(x, np.integer):
        return int(x)
    if isinstance(x, np.floating):
        return float(x)
    if isinstance(x, dict):
        return {str(k): enc(v) for k, v in x.items()}
    if isinstance(x, (list, tuple)):
        return [enc(v) for v in x]
    if isinstance(x, (set, frozenset)):
        return sorted(enc(v) for v in x)
    if isinstance(x, (str, int, float, bool)) or x is None:
        return x
    return repr(x)


def dec(x):
    import numpy as np

    if isinstance(x, dict):
        if "__nd__" in x:
            k = x["__nd__"]
            shape = tuple(x["shape"])
            if k == "c":
                return (np.array(x["re"], dtype=float) + 1j * np.array(x["im"], dtype=float)).reshape(shape)
            if k == "o":
                a = np.empty(len(x["v"]), dtype=object)
                for i, v in enumerate(x["v"]):
                    a[i] = dec(v)
                return a.reshape(shape)
            if k == "b":
                return np.array(x["v"], dtype=bool).reshape(shape)
            if k == "i":
                return np.array(x["v"], dtype=int).reshape(shape)
            return np.array(x["v"], dtype=float).reshape(shape)
        if "__c__" in x:
            return complex(x["__c__"][0], x["__c__"][1])
        return {k: dec(v) for k, v in x.items()}
    if isinstance(x, list):
        return [dec(v) for v in x]
    return x


def fingerprint(obj, n=16):
    """Stable short hash of a JSON-able object (floats rounded by the caller)."""
    s = json.dumps(obj, sort_keys=True, default=str)
    return hashlib.sha1(s.encode()).hexdigest()[:n]


def rnd(x, k=6):
    """Round floats (recursively) for fingerprints."""
    import numpy as np

    if isinstance(x, (float, np.floating)):
        return round(float(x), k)
    if isinstance(x, (complex, np.complexfloating)):
        return [round(float(x.real), k), round(float(x.imag), k)]
    if isinstance(x, np.ndarray):
        return rnd(x.tolist(), k)
    if isinstance(x, (list, tuple)):
        return [rnd(v, k) for v in x]
    if isinstance(x, dict):
        return {kk: rnd(v, k) for kk, v in x.items()}
    if isinstance(x, (np.integer,)):
        return int(x)
    return x
