"""Runner: shards a property's workload over child interpreters, merges what the monitors observed,
classifies violations against known_findings.json, writes evidence, prints verdict lines.

Exit codes: 0 held on everything observed (known findings are printed), 1 violation, 3 inconclusive.
"""
import argparse
import concurrent.futures
import importlib
import json
import os
import shutil
import subprocess
import sys
import time

from . import common
from .report import Report, merge

CORES = int(os.environ.get("VERIF_JOBS", "16"))


def load_known():
    # (VERIF_KNOWN_FINDINGS is only for investigating a recorded finding with the entry removed; registered commands never set it)
    path = os.environ.get("VERIF_KNOWN_FINDINGS", os.path.join(common.VERIF_ROOT, "known_findings.json"))
    if not os.path.exists(path):
        return []
    with open(path) as f:
        return json.load(f).get("findings", [])


def match_known(known, prop, locus, kind):
    for k in known:
        if k.get("status") != "known" or k.get("property") != prop:
            continue
        if k.get("locus") == locus and k.get("kind") == kind:
            return k
    return None


def child_main(args):
    common.setup_paths()
    mod = importlib.import_module("vf.props." + args.prop.lower())
    with open(args.shard_in) as f:
        shard = json.load(f)
    rep = Report(args.prop, shard.get("id", 0))
    import faulthandler

    faulthandler.enable()
    if shard.get("timeout"):
        faulthandler.dump_traceback_later(shard["timeout"] - 5, exit=False)
    cov = None
    if os.environ.get("VERIF_COVERAGE"):
        # tools/covmap.py only: which lines of the library the workloads reach (never set by registered commands)
        import coverage

        os.makedirs(os.environ["VERIF_COVERAGE"], exist_ok=True)
        cov = coverage.Coverage(data_file=os.path.join(os.environ["VERIF_COVERAGE"], "cov"), data_suffix=True,
                                include=[os.path.join(common.REPO, "strawberryfields", "*")], config_file=False)
        cov.start()
    mod.run_shard(shard, rep)
    if cov is not None:
        cov.stop()
        cov.save()
    faulthandler.cancel_dump_traceback_later()
    with open(args.shard_out, "w") as f:
        json.dump(rep.to_json(), f)
    return 0


def run_child(prop, shard, workdir):
    sid = shard.get("id", 0)
    fin = os.path.join(workdir, "shard%03d.in.json" % sid)
    fout = os.path.join(workdir, "shard%03d.out.json" % sid)
    with open(fin, "w") as f:
        json.dump(shard, f)
    env = dict(os.environ)
    env.setdefault("PYTHONHASHSEED", "0")
    env["SF_VERIF"] = "1"
    env.setdefault("OMP_NUM_THREADS", "1")
    env.setdefault("OPENBLAS_NUM_THREADS", "1")
    env.setdefault("MKL_NUM_THREADS", "1")
    env.setdefault("NUMBA_NUM_THREADS", "1")
    env["PYTHONPATH"] = common.VERIF_ROOT + os.pathsep + env.get("PYTHONPATH", "")
    cmd = [common.PYTHON, "-W", "ignore", "-m", "vf.runner", prop, "--shard-in", fin, "--shard-out", fout]
    timeout = shard.get("timeout", 900)
    try:
        p = subprocess.run(cmd, cwd=common.VERIF_ROOT, env=env, timeout=timeout + 30,
                           stdout=subprocess.PIPE, stderr=subprocess.PIPE, text=True)
    except subprocess.TimeoutExpired as e:
        return {"_fail": "shard-timeout", "id": sid, "stderr": (e.stderr or b"")[-2000:] if e.stderr else ""}
    if p.returncode != 0 or not os.path.exists(fout):
        return {"_fail": "shard-crash rc=%s" % p.returncode, "id": sid, "stderr": p.stderr[-3000:]}
    with open(fout) as f:
        return json.load(f)


def main(argv=None):
    ap = argparse.ArgumentParser()
    ap.add_argument("prop")
    ap.add_argument("--tier", default=os.environ.get("VERIF_TIER", "quick"), choices=["quick", "thorough"])
    ap.add_argument("--seed", type=int, default=int(os.environ.get("VERIF_SEED", "0")))
    ap.add_argument("--replay")
    ap.add_argument("--shard-in")
    ap.add_argument("--shard-out")
    ap.add_argument("--jobs", type=int, default=CORES)
    ap.add_argument("--scale", type=float, default=float(os.environ.get("VERIF_SCALE", "1")))
    args = ap.parse_args(argv)
    args.prop = args.prop.upper()

    if args.shard_in:
        return child_main(args)

    common.ensure_deps()
    common.setup_paths()
    mod = importlib.import_module("vf.props." + args.prop.lower())
    known = load_known()
    t0 = time.time()

    if args.replay:
        with open(args.replay) as f:
            rp = json.load(f)
        rep = Report(args.prop)
        mod.replay(rp["case"], rep)
        res = merge([rep.to_json()])
        return verdict(args, mod, res, known, t0, write_evidence=False)

    shards = mod.plan(args.tier, args.seed, args.scale)
    for i, s in enumerate(shards):
        s["id"] = i
        s.setdefault("tier", args.tier)
        s.setdefault("seed", args.seed)
        if args.tier == "thorough":
            # watchdog only (a fired watchdog is inconclusive, never a verdict): thorough tiers are sized for ~10-15 min on an
            # idle 16-core machine and have been seen 4x slower on a loaded one
            s["timeout"] = max(s.get("timeout", 900), 9000)
    workdir = os.path.join(common.VERIF_ROOT, ".cache", "run-%s-%d" % (args.prop, os.getpid()))
    os.makedirs(workdir, exist_ok=True)
    fails = []
    reports = []
    try:
        with concurrent.futures.ThreadPoolExecutor(max_workers=max(1, args.jobs)) as ex:
            for r in ex.map(lambda s: run_child(args.prop, s, workdir), shards):
                if "_fail" in r:
                    fails.append(r)
                else:
                    reports.append(r)
    finally:
        shutil.rmtree(workdir, ignore_errors=True)
    res = merge(reports)
    res["shards"] = len(shards)
    res["shard_fails"] = fails
    return verdict(args, mod, res, known, t0, write_evidence=True)


def verdict(args, mod, res, known, t0, write_evidence):
    prop = args.prop
    # -- classify violations ---------------------------------------------------------------
    new_sigs = {}
    known_hit = {}
    for v in res["violations"]:
        k = match_known(known, prop, v["locus"], v["kind"])
        sig = (v["locus"], v["kind"])
        if k is not None:
            known_hit.setdefault(k["id"], (k, 0))
            continue
        new_sigs.setdefault(sig, []).append(v)
    for sig, n in res["sig_count"].items():
        k = match_known(known, prop, sig[0], sig[1])
        if k is not None:
            known_hit[k["id"]] = (k, known_hit.get(k["id"], (k, 0))[1] + n)

    replay_paths = []
    if new_sigs:
        rdir = os.environ.get("VERIF_REPLAY_DIR", os.path.join(common.VERIF_ROOT, "replays"))
        os.makedirs(rdir, exist_ok=True)
    for sig, vs in new_sigs.items():
        v = vs[0]
        fp = common.fingerprint([prop, sig, v["case"]], 12)
        path = os.path.join(rdir, "%s-%s.json" % (prop, fp))
        if not args.replay:
            with open(path, "w") as f:
                json.dump({"property": prop, "locus": v["locus"], "kind": v["kind"], "what": v["what"],
                           "seed": args.seed, "tier": args.tier, "case": v["case"], "detail": v["detail"],
                           "occurrences": res["sig_count"].get(sig, len(vs))}, f, indent=1)
        else:
            path = args.replay
        replay_paths.append((sig, v, path))

    # -- inconclusive? ---------------------------------------------------------------------
    reasons = []
    for f in res.get("shard_fails", []):
        reasons.append("%s(shard %s)" % (f["_fail"], f["id"]))
    if write_evidence:
        if res["evaluations"] == 0:
            reasons.append("no-cases-executed")
        for m in getattr(mod, "REQUIRED_MONITORS", []):
            if res["monitors"].get(m, 0) == 0:
                reasons.append("monitor-never-evaluated:" + m)
        nerr = sum(res["errors"].values())
        if res["evaluations"] and nerr > max(2, 0.01 * res["evaluations"]):
            reasons.append("harness-errors:%d %s" % (nerr, dict(res["errors"])))
        ninc = sum(res["inconclusive"].values())
        lim = getattr(mod, "MAX_SKIP_FRACTION", 0.02)
        if res["evaluations"] and ninc > max(2, lim * res["evaluations"]):
            reasons.append("skipped-cases:%d %s" % (ninc, dict(res["inconclusive"])))
        if len(res["nontrivial"]) < 2:
            reasons.append("fewer-than-2-nontrivial-cases")
        extra = getattr(mod, "finalize", None)
        if extra:
            reasons.extend(extra(res, args.tier) or [])

    wall = time.time() - t0
    if write_evidence:
        ev = {
            "property_id": prop,
            "tier": args.tier,
            "seed": args.seed,
            "level": "exploration",
            "coverage": {
                "evaluations": int(res["evaluations"]),
                "distinct_nontrivial": len(res["nontrivial"]),
                "rule": mod.RULE,
                "samples": res["samples"] or [{"note": "no case was executed (see inconclusive_reasons)"}],
                "observed_events": dict(sorted(res["counters"].items())),
                "monitor_evaluations": dict(sorted(res["monitors"].items())),
                "distinct_seen": {k: len(v) for k, v in sorted(res["sets"].items())},
                "distinct_seen_examples": {k: sorted(v)[:12] for k, v in sorted(res["sets"].items())},
                "max_deviation_vs_budget": res["maxdev"],
                "known_findings_hit": {kid: n for kid, (k, n) in known_hit.items()},
                "skipped_cases": dict(res["inconclusive"]),
                "harness_errors": dict(res["errors"]),
                "shards": res.get("shards", 1),
                "inconclusive_reasons": reasons,
                "exhaustive": bool(getattr(mod, "EXHAUSTIVE", False)),
            },
            "assumptions": list(getattr(mod, "ASSUMPTIONS", [])),
            "wall_s": round(wall, 2),
            "violations": len(new_sigs),
        }
        edir = os.environ.get("VERIF_EVIDENCE_DIR", os.path.join(common.VERIF_ROOT, "evidence"))
        os.makedirs(edir, exist_ok=True)
        evpath = os.path.join(edir, prop + ".json")
        try:
            import jsonschema

            with open("/root/.vp/EVIDENCE.schema.json") as f:
                schema = json.load(f)
            jsonschema.validate(ev, schema)
        except ImportError:
            pass
        except FileNotFoundError:
            pass
        except Exception as e:  # schema violation: still write, but say so
            print("EVIDENCE-SCHEMA-PROBLEM %s" % str(e)[:300])
        with open(evpath, "w") as f:
            json.dump(ev, f, indent=1, sort_keys=True)

    # -- print -----------------------------------------------------------------------------
    for kid, (k, n) in sorted(known_hit.items()):
        print("KNOWN-FINDING: property=%s %s [%s; seen %d times]" % (prop, k["what"], kid, n))
    for sig, v, path in replay_paths:
        print("VIOLATION property=%s replay=%s" % (prop, path))
        print("  locus=%s kind=%s occurrences=%s" % (sig[0], sig[1], res["sig_count"].get(sig, 1)))
        print("  what: %s" % v["what"][:600])
    if res["errors"]:
        print("  harness errors: %s" % dict(res["errors"]))
        for t in res.get("traces", [])[:2]:
            print("  trace: " + t.replace("\n", "\n         "))
    for f in res.get("shard_fails", []):
        print("  shard failure: %s\n%s" % (f["_fail"], f.get("stderr", "")))
    summary = "property=%s tier=%s seed=%d evaluations=%d distinct_nontrivial=%d monitor_evals=%d wall=%.1fs" % (
        prop, args.tier, args.seed, res["evaluations"], len(res["nontrivial"]),
        sum(res["monitors"].values()), wall)
    if replay_paths:
        print("RESULT violated " + summary)
        return 1
    if reasons:
        print("INCONCLUSIVE property=%s reason=%s" % (prop, "; ".join(reasons)))
        print("RESULT inconclusive " + summary)
        return 3
    print("RESULT held-on-observed " + summary)
    return 0


if __name__ == "__main__":
    sys.exit(main())
