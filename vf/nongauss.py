"""Non-Gaussian workloads shared by C01 and C16: cat / number states followed by Gaussian gates and loss on 1-2 modes,
run on the bosonic and the Fock backend, with RefFock as the reference.

The Fock-basis content of a *bosonic* simulator state is computed here from its raw components (weights, complex means,
covariances) — not through any strawberryfields state method — by evaluating the Gaussian Fock-tensor formula with
(x - ip) in place of the complex conjugate of (x + ip) (the analytic continuation that complex means require); the
Q / A matrices and the multidimensional Hermite polynomials come from The Walrus (third party)."""
import numpy as np

from . import reffock as rf


FOCK_ONLY = {"Kgate", "Vgate", "CKgate"}  # accepted by the Fock backend only (pure vs mixed vs RefFock)


def gen_case(rng, allow_approx=True, family="gaussian-ops"):
    """family "gaussian-ops": cat / number / coherent states followed by Gaussian gates and loss (bosonic and Fock backends);
    family "fock-ops": additionally GKP states (bosonic and Fock) and Kerr, cross-Kerr, cubic and quadratic phase gates and
    two-mode squeezing (programs with a gate of FOCK_ONLY run on the Fock backend only)."""
    n = int(rng.choice([1, 2, 2]))
    cmds = []
    approx = False
    for m in range(n):
        r = rng.random()
        if family == "fock-ops" and r < 0.25:
            cmds.append({"op": "GKP", "p": [float(rng.choice([0.0, np.pi, np.pi / 2, float(rng.uniform(0, np.pi))])),
                                            float(rng.choice([0.0, float(rng.uniform(0, 6.28))]))],
                         "eps": float(rng.uniform(0.45, 0.6)), "m": [m]})
        elif r < 0.55:
            cmds.append({"op": "Catstate", "p": [float(rng.uniform(0.3, 1.1)), float(rng.choice([0.0, float(rng.uniform(0, 6.28))])),
                                                   float(rng.choice([0, 1, 0.5, float(rng.uniform(0, 2))]))], "m": [m]})
        elif r < 0.7 and allow_approx:
            cmds.append({"op": "Fock", "p": [int(rng.integers(1, 3))], "m": [m]})
            approx = True
        elif r < 0.85:
            cmds.append({"op": "Coherent", "p": [float(rng.uniform(0.1, 0.5)), float(rng.uniform(0, 6.28))], "m": [m]})
        # else: vacuum
    if not any(c["op"] in ("Catstate", "Fock", "GKP") for c in cmds):
        cmds.insert(0, {"op": "Catstate", "p": [float(rng.uniform(0.4, 1.0)), 0.0, float(rng.choice([0, 1]))], "m": [0]})
        cmds = [c for i, c in enumerate(cmds) if i == 0 or c["m"] != [0]]
    for _ in range(int(rng.integers(0, 5))):
        r = rng.random()
        if family == "fock-ops" and rng.random() < 0.5:
            nm = str(rng.choice(["Kgate", "Vgate", "Pgate"] + (["CKgate", "S2gate"] if n == 2 else [])))
            if nm in ("CKgate", "S2gate"):
                m = [int(x) for x in rng.permutation(2)]
            else:
                m = [int(rng.integers(n))]
            p = {"Kgate": [float(rng.uniform(-1.5, 1.5))], "CKgate": [float(rng.uniform(-1.5, 1.5))],
                 "Vgate": [float(rng.uniform(-0.06, 0.06))], "Pgate": [float(rng.uniform(-0.3, 0.3))],
                 "S2gate": [float(rng.uniform(-0.15, 0.15)), float(rng.uniform(0, 6.28))]}[nm]
            cmds.append({"op": nm, "p": p, "m": m, "dag": bool(rng.random() < 0.25)})
            continue
        if n == 2 and r < 0.35:
            a, b = (int(x) for x in rng.permutation(2))
            cmds.append({"op": "BSgate", "p": [float(rng.uniform(0.2, 1.3)), float(rng.uniform(0, 6.28))], "m": [a, b], "dag": bool(rng.random() < 0.2)})
        elif r < 0.5:
            cmds.append({"op": "Rgate", "p": [float(rng.uniform(-3, 3))], "m": [int(rng.integers(n))], "dag": bool(rng.random() < 0.2)})
        elif r < 0.65:
            cmds.append({"op": "Sgate", "p": [float(rng.uniform(-0.2, 0.2)), float(rng.uniform(0, 6.28))], "m": [int(rng.integers(n))]})
        elif r < 0.8:
            cmds.append({"op": "Dgate", "p": [float(rng.uniform(0.05, 0.35)), float(rng.uniform(0, 6.28))], "m": [int(rng.integers(n))], "dag": bool(rng.random() < 0.2)})
        else:
            cmds.append({"op": "LossChannel", "p": [float(rng.uniform(0.4, 1.0))], "m": [int(rng.integers(n))]})
    return {"n": n, "cmds": cmds, "approx": approx}


def build(sf, ops, case):
    prog = sf.Program(case["n"])
    with prog.context as q:
        for c in case["cmds"]:
            if c["op"] == "GKP":
                op = ops.GKP(state=list(c["p"]), epsilon=c["eps"])
            else:
                op = getattr(ops, c["op"])(*c["p"])
            if c.get("dag"):
                op = op.H
            regs = tuple(q[i] for i in c["m"])
            op | (regs if len(regs) > 1 else regs[0])
    return prog


def ref_apply(f, c):
    """Advance the RefFock state by one command of the case."""
    D = f.D
    nm, p, m = c["op"], c["p"], c["m"]
    if nm == "GKP":
        f.prepare_ket(rf.FState.gkp_ket(p[0], p[1], c["eps"], D), m[0])
    elif nm == "Catstate":
        f.prepare_ket(rf.FState.cat_ket(p[0], p[1], p[2], D), m[0])
    elif nm == "Fock":
        f.prepare_ket(rf.FState.fock_ket(int(p[0]), D), m[0])
    elif nm == "Coherent":
        f.prepare_ket(rf.FState.coherent_ket(p[0], p[1], D), m[0])
    elif nm == "LossChannel":
        f.loss(p[0], m[0])
    else:
        f.gate(nm, p, m, bool(c.get("dag")))


def reference(case, D=28):
    f = rf.FState(case["n"], D)
    for c in case["cmds"]:
        ref_apply(f, c)
    return f


def component_fock_tensor(mu, cov, cutoff):
    """Fock tensor (indices i0 j0 i1 j1 ...) of one Gaussian term with possibly complex means; hbar = 2, xxpp."""
    from itertools import chain

    from thewalrus import hermite_multidimensional

    import thewalrus.quantum as twq

    mu = np.asarray(mu, dtype=complex)
    V = np.real(np.asarray(cov))
    N = len(mu) // 2
    al = (mu[:N] + 1j * mu[N:]) / 2.0
    alc = (mu[:N] - 1j * mu[N:]) / 2.0  # NOT the conjugate of al when the means are complex
    beta = np.concatenate([al, alc])
    betac = np.concatenate([alc, al])
    Q = twq.Qmat(V, hbar=2)
    A = twq.Amat(V, hbar=2).conj()
    pref = np.exp(-0.5 * beta @ np.linalg.inv(Q) @ betac) / np.sqrt(np.linalg.det(Q))
    y = beta - A @ betac
    t = pref * hermite_multidimensional(-A, cutoff, y=y, renorm=True, modified=True)
    order = tuple(chain.from_iterable([[i, i + N] for i in range(N)]))
    return t.transpose(order)


def bosonic_dm(snap, cutoff):
    """Density matrix (D^n x D^n, row index (i0, i1)) of a bosonic snapshot from its raw components."""
    n = snap.n
    tot = 0
    for w, mu, cv in zip(snap.w, snap.ms, snap.cs):
        tot = tot + w * component_fock_tensor(mu, cv, cutoff)
    perm = [2 * i for i in range(n)] + [2 * i + 1 for i in range(n)]
    return np.transpose(tot, perm).reshape(cutoff ** n, cutoff ** n)


def ref_dm(f, cutoff):
    """RefFock density matrix restricted to the first `cutoff` levels of every mode."""
    D, n = f.D, f.n
    r = f.rho.reshape([D] * (2 * n))
    sl = tuple(slice(0, cutoff) for _ in range(2 * n))
    return r[sl].reshape(cutoff ** n, cutoff ** n)


def fock_dm(snap, cutoff=None):
    """Fock-backend snapshot as a (D^n x D^n) matrix with row index (i0, i1)."""
    n, D = snap.n, snap.D
    perm = [2 * i for i in range(n)] + [2 * i + 1 for i in range(n)]
    M = np.transpose(snap.dm, perm)
    if cutoff is not None and cutoff < D:
        sl = tuple(slice(0, cutoff) for _ in range(2 * n))
        M = M[sl]
        D = cutoff
    return M.reshape(D ** n, D ** n)


def wigner_point(f, mode, x, p, hbar=2.0):
    """Wigner function of one mode of the reference at (x, p) via displaced parity."""
    from scipy.linalg import expm

    r = f.reduced(mode)
    a = f.a
    al = (x + 1j * p) / np.sqrt(2 * hbar)
    Dm = expm(al * a.conj().T - np.conj(al) * a)
    par = np.diag((-1.0) ** np.arange(f.D))
    return float(np.real(np.trace(Dm.conj().T @ r @ Dm @ par)) / (np.pi * hbar))
