"""Instrumentation attached from the harness (no in-repo hooks): CommandTap, RandomTap, TopoPerturb,
ReachMonitor.  All state lives in the check process and is touched from one thread only."""
import contextlib
import sys

import numpy as np


# =============================================================================================
# CommandTap: one event per command the engine applies, with pre/post observers
# =============================================================================================

class CommandTap:
    """Wraps Operation.apply / Gate.apply / Measurement.apply (class attributes). Observers:
    pre(op, reg, backend, kwargs), post(op, reg, backend, kwargs, result, exc)."""

    def __init__(self):
        self.pre = []
        self.post = []
        self.depth = 0
        self.events = 0
        self._orig = {}

    def install(self):
        from strawberryfields import ops

        tap = self
        for cls in (ops.Operation, ops.Gate, ops.Measurement):
            orig = cls.__dict__["apply"]
            self._orig[cls] = orig

            def make(orig):
                def apply(self_op, reg, backend, **kwargs):
                    if tap.depth > 0:
                        return orig(self_op, reg, backend, **kwargs)
                    tap.depth += 1
                    try:
                        for f in tap.pre:
                            f(self_op, reg, backend, kwargs)
                        try:
                            res = orig(self_op, reg, backend, **kwargs)
                        except BaseException as e:
                            tap.events += 1
                            for f in tap.post:
                                f(self_op, reg, backend, kwargs, None, e)
                            raise
                        tap.events += 1
                        for f in tap.post:
                            f(self_op, reg, backend, kwargs, res, None)
                        return res
                    finally:
                        tap.depth -= 1

                apply.__wrapped__ = orig
                return apply

            setattr(cls, "apply", make(orig))
        return self

    def uninstall(self):
        for cls, orig in self._orig.items():
            setattr(cls, "apply", orig)
        self._orig = {}

    def __enter__(self):
        return self.install()

    def __exit__(self, *a):
        self.uninstall()


# =============================================================================================
# RandomTap: the random-number boundary
# =============================================================================================

class RandomTap:
    """Replaces numpy.random.{multivariate_normal, normal, choice, multinomial, random, poisson} and the
    Walrus samplers bound in gaussianbackend.backend for the duration of a case.

    mode 'record': log arguments, call the real function (global numpy RNG, seeded by the harness).
    mode 'script': log arguments and return script(name, args, kwargs, real) if it returns something
                   other than NotImplemented, else the real value.
    """

    NP_NAMES = ["multivariate_normal", "normal", "choice", "multinomial", "random", "poisson", "uniform",
                "shuffle", "rand", "randn", "random_sample", "randint"]

    def __init__(self, script=None):
        self.script = script
        self.log = []
        self._saved = []

    def _wrap(self, name, real):
        tap = self

        def f(*a, **k):
            ev = {"fn": name, "args": a, "kwargs": k}
            tap.log.append(ev)
            if tap.script is not None:
                r = tap.script(name, a, k, real)
                if r is not NotImplemented:
                    ev["ret"] = r
                    ev["scripted"] = True
                    return r
            r = real(*a, **k)
            ev["ret"] = r
            return r

        f.__name__ = name
        return f

    def install(self):
        for nm in self.NP_NAMES:
            real = getattr(np.random, nm)
            self._saved.append((np.random, nm, real))
            setattr(np.random, nm, self._wrap("np.random." + nm, real))
        try:
            import strawberryfields.backends.gaussianbackend.backend as gb

            for nm in ("hafnian_sample_state", "torontonian_sample_state"):
                real = getattr(gb, nm)
                self._saved.append((gb, nm, real))
                setattr(gb, nm, self._wrap("walrus." + nm, real))
        except Exception:  # pragma: no cover
            pass
        return self

    def uninstall(self):
        for mod, nm, real in reversed(self._saved):
            setattr(mod, nm, real)
        self._saved = []

    def __enter__(self):
        return self.install()

    def __exit__(self, *a):
        self.uninstall()


# =============================================================================================
# TopoPerturb: legal-schedule perturbation of the topological sorts
# =============================================================================================

class TopoPerturb:
    """Replaces networkx's topological_sort / lexicographical_topological_sort (looked up at call time
    through `nx.algorithms.dag`) by seeded versions that return a uniformly random *legal* order / break
    key ties randomly.  Every order returned is one NetworkX is allowed to return."""

    def __init__(self, rng):
        self.rng = rng
        self.calls = 0
        self._saved = None

    def _random_topo(self, G, key=None):
        indeg = {v: d for v, d in G.in_degree()}
        ready = [v for v, d in indeg.items() if d == 0]
        out = []
        while ready:
            if key is None:
                i = int(self.rng.integers(len(ready)))
            else:
                ks = [key(v) for v in ready]
                kmin = min(ks)
                cands = [j for j, kk in enumerate(ks) if kk == kmin]
                i = cands[int(self.rng.integers(len(cands)))]
            v = ready.pop(i)
            out.append(v)
            for _, w in G.out_edges(v):
                indeg[w] -= 1
                if indeg[w] == 0:
                    ready.append(w)
        if len(out) != G.number_of_nodes():
            import networkx as nx

            raise nx.NetworkXUnfeasible("Graph contains a cycle.")
        return out

    def install(self):
        import networkx as nx

        dag = nx.algorithms.dag
        self._saved = (dag.topological_sort, dag.lexicographical_topological_sort)
        tp = self

        def topological_sort(G):
            tp.calls += 1
            return iter(tp._random_topo(G))

        def lexicographical_topological_sort(G, key=None):
            tp.calls += 1
            return iter(tp._random_topo(G, key=key if key is not None else (lambda v: 0)))

        dag.topological_sort = topological_sort
        dag.lexicographical_topological_sort = lexicographical_topological_sort
        return self

    def uninstall(self):
        import networkx as nx

        dag = nx.algorithms.dag
        dag.topological_sort, dag.lexicographical_topological_sort = self._saved

    def __enter__(self):
        return self.install()

    def __exit__(self, *a):
        self.uninstall()


# =============================================================================================
# MergeProgress: bounded-progress monitor of GaussianMerge.compile's rewrite loop
# =============================================================================================

class NoProgress(Exception):
    """The rewrite loop of GaussianMerge.compile reached a command sequence it had already produced."""


class MergeProgress:
    """GaussianMerge.compile repeats merge_a_gaussian_op until it reports that nothing was merged.  The monitor
    records the command sequence (classes, modes, parameters) at the start of every step of one compile() call; a
    sequence seen for the third time means the loop is rewriting a sequence into itself - decided on logical steps,
    not on wall-clock time - and the step raises NoProgress instead of spinning until the shard's watchdog fires."""

    def __init__(self):
        self.steps = 0
        self.max_steps = 0
        self._saved = None

    @staticmethod
    def _sig(seq):
        out = []
        for c in seq:
            ps = []
            for x in c.op.p:
                try:
                    ps.append(np.round(np.asarray(x, dtype=complex), 10).tobytes())
                except Exception:
                    ps.append(str(x))
            out.append((type(c.op).__name__, tuple(r.ind for r in c.reg), tuple(ps)))
        return hash(tuple(out))

    def install(self):
        from strawberryfields.compilers.gaussian_merge import GaussianMerge

        mon = self
        self._saved = (GaussianMerge.compile, GaussianMerge.merge_a_gaussian_op)
        o_compile, o_step = self._saved

        def compile(self_, seq, registers):
            self_._vf_seen = {}
            self_._vf_steps = 0
            try:
                return o_compile(self_, seq, registers)
            finally:
                mon.max_steps = max(mon.max_steps, self_._vf_steps)

        def merge_a_gaussian_op(self_, registers):
            seen = getattr(self_, "_vf_seen", None)
            if seen is not None:
                k = mon._sig(self_.curr_seq)
                seen[k] = seen.get(k, 0) + 1
                self_._vf_steps += 1
                mon.steps += 1
                if seen[k] >= 3:
                    raise NoProgress("after %d steps the sequence %s is produced for the third time" % (
                        self_._vf_steps, [(type(c.op).__name__, [r.ind for r in c.reg]) for c in self_.curr_seq]))
            return o_step(self_, registers)

        GaussianMerge.compile = compile
        GaussianMerge.merge_a_gaussian_op = merge_a_gaussian_op
        return self

    def uninstall(self):
        from strawberryfields.compilers.gaussian_merge import GaussianMerge

        GaussianMerge.compile, GaussianMerge.merge_a_gaussian_op = self._saved

    def __enter__(self):
        return self.install()

    def __exit__(self, *a):
        self.uninstall()


# =============================================================================================
# ReachMonitor: which anchored functions / lines were actually executed
# =============================================================================================

class ReachMonitor:
    """sys.monitoring (3.12) local events on selected code objects: calls and distinct lines hit."""

    TOOL = 3

    def __init__(self, functions):
        self.codes = {}
        for f in functions:
            f = getattr(f, "__wrapped__", f)
            f = getattr(f, "__func__", f)
            code = getattr(f, "__code__", None)
            if code is not None:
                self.codes[code] = "%s.%s" % (getattr(f, "__module__", "?").split(".")[-1], f.__qualname__)
        self.calls = {n: 0 for n in self.codes.values()}
        self.lines = {n: set() for n in self.codes.values()}
        self.active = False

    def install(self):
        mon = getattr(sys, "monitoring", None)
        if mon is None:
            return self
        try:
            mon.use_tool_id(self.TOOL, "vf-reach")
        except ValueError:
            return self
        E = mon.events

        def on_start(code, off):
            n = self.codes.get(code)
            if n is not None:
                self.calls[n] += 1

        def on_line(code, line):
            n = self.codes.get(code)
            if n is not None:
                s = self.lines[n]
                s.add(line)
            return None

        mon.register_callback(self.TOOL, E.PY_START, on_start)
        mon.register_callback(self.TOOL, E.LINE, on_line)
        for code in self.codes:
            mon.set_local_events(self.TOOL, code, E.PY_START | E.LINE)
        self.active = True
        return self

    def uninstall(self):
        if not self.active:
            return
        mon = sys.monitoring
        for code in self.codes:
            mon.set_local_events(self.TOOL, code, 0)
        mon.register_callback(self.TOOL, mon.events.PY_START, None)
        mon.register_callback(self.TOOL, mon.events.LINE, None)
        mon.free_tool_id(self.TOOL)
        self.active = False

    def flush(self, rep):
        for n, c in self.calls.items():
            rep.observe("reach.calls:" + n, c)
            for ln in self.lines[n]:
                rep.seen("reach.lines:" + n, str(ln))

    def __enter__(self):
        return self.install()

    def __exit__(self, *a):
        self.uninstall()


@contextlib.contextmanager
def patched(obj, name, new):
    old = getattr(obj, name)
    setattr(obj, name, new)
    try:
        yield old
    finally:
        setattr(obj, name, old)
