"""RefPhot — independent photon-statistics reference for Gaussian states (hbar = 2, xxpp, vacuum = I).

Nothing here imports strawberryfields or thewalrus.  Three independent routes are provided so that they can
check each other (vf.selftest) and so that a defect in one formula cannot hide a defect in the code under test:

* ``fock_prob``         loop-hafnian formula with a brute-force (recursive) loop hafnian;
* ``total_photon_dist`` generating function <z^N> of the total photon number, evaluated on a circle and
                        inverted by a discrete Fourier sum (no hafnians involved);
* ``vacuum_prob`` / ``click_prob``  determinant formula for "all of these modes are empty" and
                        inclusion-exclusion over it for threshold patterns (no hafnians, no torontonians).

``franck_condon`` integrates harmonic-oscillator wavefunctions on a grid; it knows nothing of Gaussian optics.
"""
import itertools
import math

import numpy as np


def complex_cov(mu, V):
    """(beta, sigma) in the (a, a^dag) basis from real xxpp moments with hbar = 2."""
    n = len(mu) // 2
    I = np.eye(n)
    W = np.block([[I, 1j * I], [I, -1j * I]]) / 2.0  # a = (x + i p)/2
    beta = W @ np.asarray(mu, dtype=float)
    sigma = W @ np.asarray(V, dtype=float) @ W.conj().T
    return beta, sigma


def loop_hafnian(M, g):
    """Sum over all matchings of {0..k-1} into pairs (weight M[i,j]) and singletons (weight g[i]).
    With g = 0 this is the hafnian.  Recursive on the first index, memoised on the remaining index set."""
    k = len(g)
    memo = {}

    def rec(mask):
        if mask == 0:
            return 1.0 + 0j
        if mask in memo:
            return memo[mask]
        i = (mask & -mask).bit_length() - 1
        rest = mask & ~(1 << i)
        tot = 0j
        if g[i] != 0:
            tot += g[i] * rec(rest)
        m = rest
        while m:
            j = (m & -m).bit_length() - 1
            m &= m - 1
            if M[i, j] != 0:
                tot += M[i, j] * rec(rest & ~(1 << j))
        memo[mask] = tot
        return tot

    return rec((1 << k) - 1)


def fock_prob(mu, V, pattern):
    """Probability of the photon pattern for the Gaussian state (mu, V); all modes of the state measured."""
    pattern = [int(x) for x in pattern]
    n = len(pattern)
    beta, sigma = complex_cov(mu, V)
    Q = sigma + np.eye(2 * n) / 2.0
    Qi = np.linalg.inv(Q)
    X = np.block([[np.zeros((n, n)), np.eye(n)], [np.eye(n), np.zeros((n, n))]])
    A = X @ (np.eye(2 * n) - Qi)
    gamma = beta.conj() @ Qi
    idx = [i for i, c in enumerate(pattern) for _ in range(c)]
    idx = idx + [i + n for i in idx]
    As = A[np.ix_(idx, idx)]
    gs = gamma[idx]
    pref = np.exp(-0.5 * (beta.conj() @ Qi @ beta)) / np.sqrt(np.linalg.det(Q))
    fact = 1.0
    for c in pattern:
        fact *= math.factorial(c)
    val = pref * loop_hafnian(As, gs) / fact
    return float(val.real)


def pure_gbs_prob(A, pattern):
    """Textbook GBS formula for the pure state |psi> ~ exp(a^dag A a^dag / 2)|0>:
    p(n) = |haf(A_n)|^2 / n! * sqrt(det(1 - A A^*)).  Exact zeros of A stay exact zeros of the probability."""
    A = np.asarray(A)
    pattern = [int(x) for x in pattern]
    idx = [i for i, c in enumerate(pattern) for _ in range(c)]
    h = loop_hafnian(A[np.ix_(idx, idx)], np.zeros(len(idx)))
    fact = 1.0
    for c in pattern:
        fact *= math.factorial(c)
    norm = np.sqrt(np.real(np.linalg.det(np.eye(len(A)) - A @ np.conj(A))))
    return float(abs(h) ** 2 / fact * norm)


def photon_pgf(mu, V, z):
    """<z^N> for the total photon number N of the state (all modes)."""
    V = np.asarray(V, dtype=float)
    mu = np.asarray(mu, dtype=float)
    m = len(mu)
    n = m // 2
    I = np.eye(m)
    k = (1 - z) / (1 + z)
    det = np.linalg.det(I + k * V)
    ex = 0.0
    if np.any(mu != 0):
        ex = -0.5 * k * (mu @ np.linalg.solve(I + k * V, mu))
    return (2.0 / (1 + z)) ** n / np.sqrt(det + 0j) * np.exp(ex)


def total_photon_dist(mu, V, nmax, radius=0.7, points=None):
    """P(N = 0..nmax) from the generating function on |z| = radius.  The square root of the determinant is
    continued analytically along the circle (sign tracked), so no branch cut is crossed."""
    K = points or max(256, 4 * (nmax + 1))
    zs = radius * np.exp(2j * np.pi * np.arange(K) / K)
    vals = np.empty(K, dtype=complex)
    prev = None
    for i, z in enumerate(zs):
        v = photon_pgf(mu, V, z)
        if prev is not None and abs(v + prev) < abs(v - prev):
            v = -v
        vals[i] = v
        prev = v
    # the value at z = radius (real, positive) fixes the overall sign
    if vals[0].real < 0:
        vals = -vals
    out = []
    for k in range(nmax + 1):
        out.append(float(np.real(np.mean(vals * zs ** (-k)))))
    return np.array(out)


def reduced(mu, V, modes):
    n = len(mu) // 2
    idx = list(modes) + [m + n for m in modes]
    return np.asarray(mu)[idx], np.asarray(V)[np.ix_(idx, idx)]


def vacuum_prob(mu, V, modes):
    """Probability that every listed mode holds no photon."""
    if len(modes) == 0:
        return 1.0
    m, v = reduced(mu, V, modes)
    k = len(modes)
    M = v + np.eye(2 * k)
    return float(2.0 ** k / np.sqrt(np.linalg.det(M)) * np.exp(-0.5 * m @ np.linalg.solve(M, m)))


def click_prob(mu, V, pattern):
    """Probability of a threshold-detector pattern (1 = at least one photon) over all modes."""
    n = len(pattern)
    on = [i for i in range(n) if pattern[i]]
    off = [i for i in range(n) if not pattern[i]]
    tot = 0.0
    for k in range(len(on) + 1):
        for T in itertools.combinations(on, k):
            tot += (-1) ** k * vacuum_prob(mu, V, off + list(T))
    return tot


def mean_photons(mu, V):
    n = len(mu) // 2
    mu = np.asarray(mu)
    d = np.diag(V)
    return (d[:n] + d[n:] + mu[:n] ** 2 + mu[n:] ** 2) / 4.0 - 0.5


def patterns_with_total(n_modes, total, maxc=None):
    """All photon patterns over n_modes with the given total (each entry <= maxc)."""
    if n_modes == 1:
        if maxc is None or total <= maxc:
            yield (total,)
        return
    top = total if maxc is None else min(total, maxc)
    for k in range(top + 1):
        for rest in patterns_with_total(n_modes - 1, total - k, maxc):
            yield (k,) + rest


# ---------------------------------------------------------------------------------------------------
# Franck-Condon integrals by direct integration
# ---------------------------------------------------------------------------------------------------

def _ho(n, x):
    """Harmonic-oscillator eigenfunction in the dimensionless coordinate (stable recurrence)."""
    p0 = np.pi ** -0.25 * np.exp(-x ** 2 / 2.0)
    if n == 0:
        return p0
    p1 = np.sqrt(2.0) * x * p0
    for k in range(1, n):
        p0, p1 = p1, np.sqrt(2.0 / (k + 1)) * x * p1 - np.sqrt(k / (k + 1.0)) * p0
    return p1


def franck_condon(J, delta, n_final, n_initial, half_width=9.0, points=None):
    """<n_final | n_initial> with final dimensionless coordinates x' = J x + delta (1 or 2 modes).
    Returns the overlap integral (real)."""
    J = np.atleast_2d(np.asarray(J, dtype=float))
    delta = np.atleast_1d(np.asarray(delta, dtype=float))
    d = len(delta)
    pts = points or (4001 if d == 1 else 561)
    # integrate over the initial coordinates; widen the box so that both Gaussians are covered
    scale = max(1.0, 1.0 / np.min(np.linalg.svd(J, compute_uv=False)))
    L = half_width * scale + np.max(np.abs(np.linalg.solve(J, delta)))
    g = np.linspace(-L, L, pts)
    h = g[1] - g[0]
    jac = np.sqrt(abs(np.linalg.det(J)))
    if d == 1:
        xp = J[0, 0] * g + delta[0]
        return float(np.sum(_ho(n_final[0], xp) * _ho(n_initial[0], g)) * h * jac)
    if d == 2:
        X, Y = np.meshgrid(g, g, indexing="ij")
        XP = J[0, 0] * X + J[0, 1] * Y + delta[0]
        YP = J[1, 0] * X + J[1, 1] * Y + delta[1]
        f = _ho(n_final[0], XP) * _ho(n_final[1], YP) * _ho(n_initial[0], X) * _ho(n_initial[1], Y)
        return float(np.sum(f) * h * h * jac)
    raise ValueError("franck_condon supports 1 or 2 modes")
