"""Lock-step execution of generated programs on the real simulator backends with CommandTap observers.

Snap      : reference-convention snapshot of a live backend (hbar = 2, xxpp) taken at the quiescent points
            between two commands, through the public `backend.state()` API only.
SimRunner : runs one program spec on one backend configuration, calls observers with
            (event, before, after); the 'after' snapshot of a command is the 'before' of the next.
"""
import numpy as np

from .common import setup_paths
from . import refgauss as rg
from .instrument import CommandTap

setup_paths()
import strawberryfields as sf  # noqa: E402
from strawberryfields import ops  # noqa: E402
from . import sfutil  # noqa: E402


class Snap:
    """kind in {gaussian, bosonic, fock}. Gaussian: mu, V. Bosonic: w, ms, cs (+ mu, V moments).
    Fock: dm tensor (always a density matrix, indices i0 j0 i1 j1 ...), D, n, pure flag, trace."""

    def __init__(self, backend):
        name = backend.short_name
        self.kind = name
        st = backend.state()
        self.state = st
        self.n = st.num_modes
        if name == "gaussian":
            self.mu, self.V = sfutil.gaussian_state_mv(st)
        elif name == "bosonic":
            self.w, self.ms, self.cs = sfutil.bosonic_components(st)
            self.mu, self.V = sfutil.bosonic_moments(st)
            self.mu, self.V = np.real_if_close(self.mu, 1e6), np.real_if_close(self.V, 1e6)
        elif name == "fock":
            self.D = st.cutoff_dim
            self.pure = bool(st.is_pure)
            data = np.asarray(st.data)
            if self.pure:
                n = self.n
                ket = data
                # dm[i0,j0,i1,j1,...] = ket[i0,i1,...] conj(ket[j0,j1,...])
                dm = np.multiply.outer(ket, ket.conj())
                perm = [k for i in range(n) for k in (i, n + i)]
                self.dm = np.transpose(dm, perm)
                self.ket = ket
            else:
                self.dm = data
                self.ket = None
            self.trace = float(np.real(self.full_trace()))
        else:
            raise KeyError(name)

    # -- Fock helpers ----------------------------------------------------------------------------
    def full_trace(self):
        t = self.dm
        for _ in range(self.n):
            t = np.trace(t, axis1=0, axis2=1)
        return t

    def reduced_dm(self, modes):
        """Reduced density matrix of `modes` (ordered), as a tensor with indices (i_a, j_a, i_b, j_b, ...)."""
        n = self.n
        letters = "abcdefghijklmnopqrstuvwxyz"
        idx = []
        out = {}
        for m in range(n):
            if m in modes:
                idx.append(letters[2 * m] + letters[2 * m + 1])
                out[m] = letters[2 * m] + letters[2 * m + 1]
            else:
                idx.append(letters[2 * m] * 2)
        expr = "".join(idx) + "->" + "".join(out[m] for m in modes)
        return np.einsum(expr, self.dm)

    def reduced_matrix(self, modes):
        """Reduced density matrix as a (D^k x D^k) matrix, row index = (i_a, i_b, ...)."""
        k = len(modes)
        t = self.reduced_dm(modes)
        perm = [2 * i for i in range(k)] + [2 * i + 1 for i in range(k)]
        return np.transpose(t, perm).reshape(self.D ** k, self.D ** k)

    def fock_moments(self):
        """(mu, V) in hbar=2, xxpp, computed from the Fock tensor with the harness's own ladder matrices,
        normalised by the trace."""
        D, n = self.D, self.n
        a = np.diag(np.sqrt(np.arange(1, D)), 1)
        x = a + a.T
        p = -1j * (a - a.T)
        tr = self.trace if self.trace > 0 else 1.0
        mu = np.zeros(2 * n)
        V = np.zeros((2 * n, 2 * n))
        r1 = [self.reduced_matrix([m]) for m in range(n)]
        for m in range(n):
            mu[m] = np.real(np.trace(r1[m] @ x)) / tr
            mu[n + m] = np.real(np.trace(r1[m] @ p)) / tr
        opsq = {0: x, 1: p}
        for i in range(n):
            for si in (0, 1):
                for sj in (0, 1):
                    A, B = opsq[si], opsq[sj]
                    val = np.real(np.trace(r1[i] @ (A @ B + B @ A) / 2)) / tr
                    V[si * n + i, sj * n + i] = val - mu[si * n + i] * mu[sj * n + i]
            for j in range(i + 1, n):
                r2 = self.reduced_matrix([i, j])
                for si in (0, 1):
                    for sj in (0, 1):
                        O = np.kron(opsq[si], opsq[sj])
                        val = np.real(np.trace(r2 @ O)) / tr
                        c = val - mu[si * n + i] * mu[sj * n + j]
                        V[si * n + i, sj * n + j] = c
                        V[sj * n + j, si * n + i] = c
        return mu, V

    def mean_photons(self):
        if self.kind == "fock":
            nn = np.arange(self.D)
            tr = self.trace if self.trace > 0 else 1.0
            return np.array([np.real(np.sum(np.diag(self.reduced_matrix([m])) * nn)) / tr for m in range(self.n)])
        n = self.n
        return np.array([(self.V[m, m] + self.V[n + m, n + m] + self.mu[m] ** 2 + self.mu[n + m] ** 2) / 4 - 0.5
                         for m in range(n)])


def event_of(op, reg):
    name = type(op).__name__
    try:
        p = sfutil.numeric(op.p)
    except Exception:
        p = list(op.p)
    if name == "Gaussian":
        p = [np.asarray(p[0], dtype=float) * (sf.hbar / 2.0), np.asarray(p[1], dtype=float)]
    return {"name": name, "p": p, "modes": [r.ind for r in reg], "dagger": bool(getattr(op, "dagger", False)), "op": op}


class SimRunner:
    def __init__(self):
        self.tap = CommandTap().install()
        self.observers = []
        self.tap.pre.append(self._pre)
        self.tap.post.append(self._post)
        self._after = None
        self.events = []
        self.snap_errors = 0

    def _pre(self, op, reg, backend, kwargs):
        if self._after is None:
            try:
                self._after = Snap(backend)
            except Exception:
                self.snap_errors += 1
                self._after = None
        self._before = self._after

    def _post(self, op, reg, backend, kwargs, res, exc):
        ev = event_of(op, reg)
        ev["result"] = res
        ev["exc"] = exc
        ev["kwargs"] = kwargs
        ev["seq"] = len(self.events)
        try:
            after = Snap(backend) if exc is None else None
        except Exception:
            self.snap_errors += 1
            after = None
        self._after = after
        self.events.append(ev)
        for o in self.observers:
            o.on_command(ev, self._before, after)

    def run(self, prog, backend, backend_options=None, run_options=None, args=None):
        """Runs on a fresh engine; returns (result or exception, engine)."""
        self._after = None
        self.events = []
        eng = sf.Engine(backend, backend_options=dict(backend_options or {}))
        for o in self.observers:
            o.on_start(prog, backend, backend_options or {})
        try:
            res = eng.run(prog, args=args or {}, **(run_options or {}))
        except Exception as e:  # the caller decides what an exception means
            res = e
        for o in self.observers:
            o.on_finish(res, eng)
        return res, eng


class Observer:
    def on_start(self, prog, backend, options):
        pass

    def on_command(self, ev, before, after):
        pass

    def on_finish(self, res, eng):
        pass


# ---------------------------------------------------------------------------------------------
# truncation budget
# ---------------------------------------------------------------------------------------------

def tail_mass(g, D):
    """Probability that some mode of the reference Gaussian state g holds >= D photons (union bound)."""
    from thewalrus.quantum import probabilities

    t = 0.0
    for m in range(g.n):
        mu, V = g.reduced([m])
        # cheap exact single-mode photon-number distribution
        # mass just beyond the cutoff, summed directly (1 - sum(p[:D]) cannot resolve tails below 1e-16,
        # while moment errors scale with the square root of the tail)
        p = np.real(probabilities(mu, V, D + 10, hbar=2))
        t += max(float(np.sum(p[D:])), max(0.0, 1.0 - float(np.sum(p))))
    return t


def fock_budget(tau_star, C=20.0):
    return C * np.sqrt(max(tau_star, 0.0)) + 1e-7


# ---------------------------------------------------------------------------------------------
# program generation for the simulator properties (C01, C05, C07, C15)
# ---------------------------------------------------------------------------------------------

ONE_GATES = ["Dgate", "Xgate", "Zgate", "Sgate", "Rgate", "Pgate", "Fouriergate"]
TWO_GATES = ["BSgate", "MZgate", "sMZgate", "S2gate", "CXgate", "CZgate"]
PREPS = ["Vacuum", "Coherent", "Squeezed", "DisplacedSqueezed", "Thermal"]
FOCK_OK = set(ONE_GATES + TWO_GATES + PREPS + ["LossChannel", "Interferometer", "GaussianTransform", "Gaussian", "New", "Del"])
BOSONIC_OK = set(ONE_GATES + ["BSgate", "MZgate", "S2gate", "CXgate", "CZgate"] + PREPS +
                 ["LossChannel", "ThermalLossChannel", "Gaussian", "Del", "MSgate"])  # (New on bosonic: recorded finding under C08)
GAUSSIAN_OK = set(ONE_GATES + TWO_GATES + PREPS + ["LossChannel", "ThermalLossChannel", "PassiveChannel",
                                                  "Interferometer", "GaussianTransform", "Gaussian", "New", "Del"])


def gen_params(rng, name, small, gen):
    """Parameter values: boundary-heavy; `small` keeps the energy low for Fock legs.  A few values are Python ints
    (users write Rgate(1), BSgate(1, 0)): integer arithmetic on a parameter must not change the operation."""
    p = _gen_params(rng, name, small, gen)
    if p and name in ("Rgate", "BSgate", "MZgate", "sMZgate") and rng.random() < 0.06:
        p = list(p)
        p[int(rng.integers(len(p)))] = int(rng.choice([0, 1, -1, 2]))
    return p


def _gen_params(rng, name, small, gen):
    amp = (lambda: gen.small(rng, 0.3)) if small else (lambda: float(rng.choice([0.0, rng.uniform(-1.0, 1.0)],
                                                                                  p=[0.1, 0.9])))
    if name in ("Dgate", "Coherent"):
        return [abs(amp()) if rng.random() < 0.7 else amp(), gen.angle(rng)]
    if name in ("Xgate", "Zgate", "Pgate", "CXgate", "CZgate"):
        return [amp()]
    if name in ("Sgate", "Squeezed", "S2gate"):
        return [amp(), gen.angle(rng)]
    if name == "DisplacedSqueezed":
        return [abs(amp()), gen.angle(rng), amp(), gen.angle(rng)]
    if name == "Rgate":
        return [gen.angle(rng)]
    if name == "Fouriergate" or name == "Vacuum":
        return []
    if name == "Thermal":
        return [float(rng.choice([0.0, rng.uniform(0, 0.3 if small else 1.0)]))]
    if name == "BSgate":
        return [gen.angle(rng), gen.angle(rng)]
    if name in ("MZgate", "sMZgate"):
        return [gen.angle(rng), gen.angle(rng)]
    if name == "LossChannel":
        return [gen.transmissivity(rng)]
    if name == "ThermalLossChannel":
        return [gen.transmissivity(rng), float(rng.choice([0.0, rng.uniform(0, 0.3 if small else 1.0)]))]
    if name == "MSgate":
        # average map of measurement-based squeezing: either sign of r, ideal and lossy ancilla detection, the default
        # (practically infinite) and a realistic ancilla squeezing
        r = float(rng.uniform(0.05, 0.4 if small else 0.8)) * (1 if rng.random() < 0.7 else -1)
        return [r, gen.angle(rng), float(rng.choice([10.0, 1.2, 0.4])), float(rng.choice([1.0, 0.95, 0.6, 0.3]))]
    raise KeyError(name)


def gen_program(rng, gen, n=None, length=None, small=True, allow=None, prefix=True, p_dagger=0.25):
    """Program spec {n, cmds}. A random entangling prefix makes spectators non-vacuum."""
    from .common import enc

    n = n or int(rng.integers(1, 4))
    L = length or int(rng.integers(3, 10))
    allow = allow or GAUSSIAN_OK
    cmds = []
    if prefix:
        for m in range(n):
            nm = str(rng.choice(["Squeezed", "Coherent", "DisplacedSqueezed", "Thermal", "Vacuum"]))
            if nm in allow:
                cmds.append({"op": nm, "p": gen_params(rng, nm, small, gen), "m": [m], "dag": False})
        for _ in range(n - 1 if n > 1 else 0):
            a, b = (int(x) for x in rng.choice(n, 2, replace=False))
            cmds.append({"op": "BSgate", "p": [float(rng.uniform(0.3, 1.2)), float(rng.uniform(0, 6.28))], "m": [a, b],
                         "dag": False})
    pool1 = [x for x in ONE_GATES + ["LossChannel", "ThermalLossChannel", "MSgate"] + PREPS if x in allow]
    pool2 = [x for x in TWO_GATES if x in allow]
    for _ in range(L):
        r = rng.random()
        if n >= 2 and r < 0.4 and pool2:
            nm = str(rng.choice(pool2))
            a, b = (int(x) for x in rng.choice(n, 2, replace=False))
            cmds.append({"op": nm, "p": gen_params(rng, nm, small, gen), "m": [a, b],
                         "dag": bool(rng.random() < p_dagger)})
        elif r < 0.9 or n < 2:
            nm = str(rng.choice(pool1))
            isgate = nm in ONE_GATES
            cmds.append({"op": nm, "p": gen_params(rng, nm, small, gen), "m": [int(rng.integers(n))],
                         "dag": bool(isgate and rng.random() < p_dagger)})
        else:
            # multi-mode matrix operations on an ordered subset
            k = int(rng.integers(2, n + 1))
            modes = [int(x) for x in rng.choice(n, k, replace=False)]
            avail = [x for x in ["Interferometer", "GaussianTransform", "PassiveChannel", "Gaussian"] if x in allow]
            if not avail:
                nm = str(rng.choice(pool1))
                cmds.append({"op": nm, "p": gen_params(rng, nm, small, gen), "m": [int(rng.integers(n))],
                             "dag": bool(nm in ONE_GATES and rng.random() < p_dagger)})
                continue
            choice = str(rng.choice(avail))
            if choice == "Interferometer":
                cmds.append({"op": choice, "p": [enc(gen.haar(rng, k))], "m": modes, "dag": False,
                             "kw": {"mesh": str(rng.choice(["rectangular", "rectangular_phase_end", "rectangular_symmetric",
                                                            "rectangular_compact", "triangular_compact"]))}})
            elif choice == "GaussianTransform":
                S = gen.random_symplectic(rng, k, True, rng.uniform(-0.25, 0.25, k) if small else None)
                cmds.append({"op": choice, "p": [enc(S)], "m": modes, "dag": False})
            elif choice == "PassiveChannel":
                T = gen.haar(rng, k) @ np.diag(rng.uniform(0.3, 1.0, k)) @ gen.haar(rng, k)
                cmds.append({"op": choice, "p": [enc(T)], "m": modes, "dag": False})
            else:
                S = gen.random_symplectic(rng, k, True, rng.uniform(-0.25, 0.25, k))
                nu = 1 + rng.uniform(0, 0.3, k) * (rng.random() < 0.5)
                V = S @ np.diag(np.concatenate([nu, nu])) @ S.T * (sf.hbar / 2.0)
                r = rng.uniform(-0.3, 0.3, 2 * k) * np.sqrt(sf.hbar / 2.0)
                cmds.append({"op": "Gaussian", "p": [enc(V), enc(r)], "m": modes, "dag": False,
                             "kw": {"decomp": bool(rng.integers(2))} if "Gaussian:nodecomp" in allow else {}})
    return {"n": n, "cmds": cmds}


def spec_accepts(spec, okset):
    return all(c["op"] in okset for c in spec["cmds"])


def extend_with_new_del(rng, gen, spec, allow, small, max_modes, with_new=True, with_del=True):
    """Appends  New(k) + commands over the enlarged register  and / or  Del of some subsystems + commands over the
    remaining ones  to a program spec.  "m" of a New command lists the labels it creates."""
    cmds = list(spec["cmds"])
    labels = list(range(spec["n"]))
    nxt = spec["n"]

    def part(labels):
        sub = gen_program(rng, gen, n=len(labels), length=int(rng.integers(2, 7)), small=small, allow=allow, prefix=False)
        out = []
        for c in sub["cmds"]:
            c = dict(c)
            c["m"] = [labels[i] for i in c["m"]]
            out.append(c)
        return out

    if with_new and len(labels) < max_modes:
        k = int(rng.integers(1, min(2, max_modes - len(labels)) + 1))
        cmds.append({"op": "New", "n": k, "p": [], "m": list(range(nxt, nxt + k)), "dag": False})
        labels += list(range(nxt, nxt + k))
        nxt += k
        cmds += part(labels)
    if with_del and len(labels) >= 2:
        k = 1 if len(labels) == 2 or rng.random() < 0.7 else 2
        d = sorted(int(x) for x in rng.choice(labels, k, replace=False))
        cmds.append({"op": "Del", "p": [], "m": d, "dag": False})
        labels = [x for x in labels if x not in d]
        cmds += part(labels)
    return {"n": spec["n"], "cmds": cmds, "structural": True}


def pure_prefix(rng, n):
    """Gates-only entangling prefix from vacuum: keeps the Fock backend's pure (ket) representation."""
    pre = []
    for m in range(n):
        pre.append({"op": "Dgate", "p": [float(rng.uniform(0.05, 0.3)), float(rng.uniform(0, 6.28))], "m": [m], "dag": False})
        pre.append({"op": "Sgate", "p": [float(rng.uniform(-0.2, 0.2)), float(rng.uniform(0, 6.28))], "m": [m], "dag": False})
    for _ in range(n - 1):
        a, b = (int(x) for x in rng.choice(n, 2, replace=False))
        pre.append({"op": "BSgate", "p": [float(rng.uniform(0.3, 1.2)), float(rng.uniform(0, 6.28))], "m": [a, b], "dag": False})
    return pre
