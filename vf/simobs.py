"""Observers shared by C05 (locality) and C07 (physicality / conservation): invariants asserted at the
CommandTap hook with the previous snapshot in hand."""
import numpy as np

from . import refgauss as rg
from .common import rnd

UNITARY = {"Dgate", "Xgate", "Zgate", "Sgate", "Rgate", "Pgate", "Fouriergate", "BSgate", "MZgate", "sMZgate", "S2gate",
           "CXgate", "CZgate", "Kgate", "Vgate", "CKgate", "Interferometer", "GaussianTransform", "Ggate"}
PASSIVE = {"Rgate", "Fouriergate", "BSgate", "MZgate", "sMZgate", "Interferometer", "Kgate", "CKgate"}
CHANNELS = {"LossChannel", "ThermalLossChannel", "PassiveChannel", "MSgate"}
PREPS = {"Vacuum", "Coherent", "Squeezed", "DisplacedSqueezed", "Thermal", "Fock", "Ket", "DensityMatrix", "Gaussian",
         "Catstate", "GKP", "Bosonic"}


def idx(n, modes):
    modes = list(modes)
    return np.array(modes + [n + m for m in modes], dtype=int)


def edge_population(snap, modes, levels=2):
    """Population of the top `levels` Fock levels of the given modes (measured proxy for truncation)."""
    D = snap.D
    tot = 0.0
    for m in modes:
        d = np.real(np.diag(snap.reduced_matrix([m])))
        tot += float(np.sum(np.abs(d[D - levels:])))
    return tot


class LocalityObserver:
    """C05: a gate/channel leaves the reduced state of all other modes as it was; a preparation leaves the
    target in the documented state, uncorrelated with the rest, and the rest as it was."""

    def __init__(self, rep, case, conf, hbar):
        self.rep, self.case, self.conf, self.hbar = rep, case, conf, hbar

    def on_start(self, *a):
        pass

    def on_finish(self, *a):
        pass

    def lab(self):
        c = self.conf
        if c["backend"] == "fock":
            return "fock-pure" if c.get("pure", True) else "fock-mixed"
        return c["backend"]

    def on_command(self, ev, before, after):
        rep = self.rep
        if ev["exc"] is not None or before is None or after is None:
            return
        name = ev["name"]
        if name == "_Delete":
            self.on_delete(ev, before, after)
            return
        if name in ("MeasureFock", "MeasureHomodyne", "MeasureHeterodyne") and before.n == after.n:
            self.on_measure(ev, before, after)
            return
        if name not in UNITARY and name not in CHANNELS and name not in PREPS:
            return
        n = after.n
        if before.n != n:
            return
        tg = ev["modes"]
        sp = [m for m in range(n) if m not in tg]
        if not sp:
            return
        lab = self.lab()
        locus = "%s.%s" % (self.conf["backend"], name)
        detail = {"event": ev["seq"], "modes": tg, "params": rnd([x for x in ev["p"] if not isinstance(x, np.ndarray)], 8),
                  "conf": self.conf}
        isprep = name in PREPS
        # ---- non-triviality: correlations between target and spectators before the operation -------------
        if before.kind in ("gaussian", "bosonic"):
            cross = np.max(np.abs(before.V[np.ix_(idx(n, tg), idx(n, sp))]))
            spec_vac = np.allclose(before.V[np.ix_(idx(n, sp), idx(n, sp))], np.eye(2 * len(sp)), atol=1e-6) and \
                np.allclose(before.mu[idx(n, sp)], 0, atol=1e-6)
        else:
            mu_b, V_b = before.fock_moments()
            cross = np.max(np.abs(V_b[np.ix_(idx(n, tg), idx(n, sp))]))
            spec_vac = np.allclose(V_b[np.ix_(idx(n, sp), idx(n, sp))], np.eye(2 * len(sp)), atol=1e-4)
        nontrivial = cross > 1e-3 and not spec_vac
        rep.observe("probe.%s" % ("nontrivial" if nontrivial else "trivial"))
        if nontrivial:
            rep.seen("nontrivial-probes", "%s@%s pos=%s n=%d" % (name, lab, tuple(tg), n))
            self.case["_nt"] = self.case.get("_nt", 0) + 1
        # ---- spectators unchanged ----------------------------------------------------------------------
        if after.kind == "gaussian":
            rep.monitor("spectators:" + lab)
            si = idx(n, sp)
            d = max(np.max(np.abs(after.mu[si] - before.mu[si])), np.max(np.abs(after.V[np.ix_(si, si)] - before.V[np.ix_(si, si)])))
            rep.dev("gaussian.spectator-change", d, 1e-10)
            if d > 1e-10 * (1 + np.max(np.abs(before.V))):
                rep.violation(locus, "spectators-changed", "%s on %s changed the reduced state of modes %s by %.3e (%s)" % (
                    name, tg, sp, d, lab), self.case, detail)
        elif after.kind == "bosonic":
            rep.monitor("spectators:" + lab)
            si = idx(n, sp)
            if len(after.w) == len(before.w):
                d = max(np.max(np.abs(after.ms[:, si] - before.ms[:, si])),
                        np.max(np.abs(after.cs[:, si][:, :, si] - before.cs[:, si][:, :, si])),
                        np.max(np.abs(after.w - before.w)) if not isprep else 0.0)
            else:
                d = max(np.max(np.abs(after.mu[si] - before.mu[si])), np.max(np.abs(after.V[np.ix_(si, si)] - before.V[np.ix_(si, si)])))
            rep.dev("bosonic.spectator-change", d, 1e-10)
            if d > 1e-10 * (1 + np.max(np.abs(before.V))):
                rep.violation(locus, "spectators-changed", "%s on %s changed the spectator components by %.3e (%s)" % (
                    name, tg, d, lab), self.case, detail)
        else:
            rep.monitor("spectators:" + lab)
            if after.pure and before.pure:
                rep.monitor("spectators:fock(ket representation)")
            rb = before.reduced_matrix(sp) / max(before.trace, 1e-300)
            ra = after.reduced_matrix(sp) / max(after.trace, 1e-300)
            d = np.max(np.abs(ra - rb))
            tau = max(edge_population(before, tg), edge_population(after, tg)) + abs(before.trace - after.trace)
            exact = (name in PASSIVE or name in ("LossChannel",)) and tau < 1e-14
            budget = 1e-9 if exact else 20 * np.sqrt(tau) + 1e-9
            rep.dev("%s.spectator-change/budget" % lab, d / budget, 1.0)
            if d > budget:
                rep.violation(locus, "spectators-changed", "%s on %s changed the reduced density matrix of modes %s by "
                              "%.3e (budget %.3e, edge population %.2e, %s)" % (name, tg, sp, d, budget, tau, lab),
                              self.case, detail)
        # ---- preparations: target in the documented state, uncorrelated with the rest -------------------
        if isprep and name in rg.GAUSSIAN_PREPS | {"Gaussian"}:
            g = rg.GState(len(tg))
            rg.apply_op(g, name, ev["p"], list(range(len(tg))), False, self.hbar)
            ti = idx(n, tg)
            if after.kind in ("gaussian", "bosonic"):
                rep.monitor("prep-target:" + lab)
                d = max(np.max(np.abs(after.mu[ti] - g.mu)), np.max(np.abs(after.V[np.ix_(ti, ti)] - g.V)))
                c = np.max(np.abs(after.V[np.ix_(ti, idx(n, sp))]))
                if d > 1e-9 * (1 + np.max(np.abs(g.V))):
                    rep.violation(locus, "prepared-state", "%s on %s: target block differs from the documented state by %.3e "
                                  "(%s)" % (name, tg, d, lab), self.case, detail)
                if c > 1e-10:
                    rep.violation(locus, "prep-still-correlated", "%s on %s: target still correlated with the rest "
                                  "(max cross covariance %.3e, %s)" % (name, tg, c, lab), self.case, detail)
            else:
                rep.monitor("prep-target:" + lab)
                from thewalrus.quantum import density_matrix

                if len(tg) == 1:
                    ref = density_matrix(g.mu, g.V, cutoff=after.D, hbar=2)
                    got = after.reduced_matrix(tg) / max(after.trace, 1e-300) * np.real(np.trace(ref))
                    from .simrun import tail_mass, fock_budget

                    tol = fock_budget(tail_mass(g, after.D))
                    d = np.max(np.abs(got - ref))
                    if d > tol:
                        rep.violation(locus, "prepared-state", "%s on %s: prepared Fock state differs from the documented "
                                      "state by %.3e (budget %.3e, %s)" % (name, tg, d, tol, lab), self.case, detail)
                    # product structure rho = rho_rest (x) rho_target, exact in the tensor
                    allm = sp + tg
                    full = after.reduced_matrix(allm)
                    prod = np.kron(after.reduced_matrix(sp), after.reduced_matrix(tg)) / max(after.trace, 1e-300)
                    dd = np.max(np.abs(full - prod))
                    if dd > 1e-9:
                        rep.violation(locus, "prep-still-correlated", "%s on %s: state is not a product of target and rest "
                                      "(max deviation %.3e, %s)" % (name, tg, dd, lab), self.case, detail)


    def on_measure(self, ev, before, after):
        """A measurement changes the other modes only by the conditional update that belongs to the outcome it
        *reported*, and leaves the measured modes in vacuum."""
        rep = self.rep
        lab = self.lab()
        name = ev["name"]
        tg = list(ev["modes"])
        n = after.n
        sp = [m for m in range(n) if m not in tg]
        locus = "%s.%s" % (self.conf["backend"], name)
        detail = {"event": ev["seq"], "modes": tg, "conf": self.conf}
        try:
            vals = np.asarray(ev["result"]).reshape(-1)
        except Exception:
            return
        if len(vals) != len(tg):
            return  # several shots: no single conditional state
        sel = getattr(ev["op"], "select", None) is not None
        if after.kind == "fock":
            if name != "MeasureFock":
                return
            outcome = [int(round(float(np.real(v)))) for v in vals]
            if any(o < 0 or o >= before.D for o in outcome):
                return
            # <outcome| rho |outcome> on the measured modes, computed from the snapshot taken before the measurement
            sl = [slice(None)] * (2 * n)
            for m, o in zip(tg, outcome):
                sl[2 * m] = o
                sl[2 * m + 1] = o
            rest = before.dm[tuple(sl)]
            k = len(sp)
            if k:
                perm = [2 * i for i in range(k)] + [2 * i + 1 for i in range(k)]
                M = np.transpose(rest, perm).reshape(before.D ** k, before.D ** k)
                prob = float(np.real(np.trace(M)))
            else:
                M, prob = None, float(np.real(rest))
            if prob < 1e-7:
                rep.observe("measure-probe.skipped:outcome-probability-below-1e-7")
                return
            rep.monitor("measurement:" + lab)
            rep.seen("measurement-probes", "%s%s@%s modes=%s" % (name, ":select" if sel else "", lab, tuple(tg)))
            if len(tg) >= 2 and tg != sorted(tg):
                rep.observe("measure-probe.non-ascending-modes")
            if len(set(outcome)) > 1:
                rep.observe("measure-probe.unequal-outcomes")
            tr = max(after.trace, 1e-300)
            for m in tg:
                v0 = float(np.real(after.reduced_matrix([m])[0, 0])) / tr
                if abs(v0 - 1) > 1e-8:
                    rep.violation(locus, "measured-mode-not-vacuum", "after %s on %s (outcome %s) mode %d has vacuum population %.9f (%s)" % (
                        name, tg, outcome, m, v0, lab), self.case, detail)
                    return
            if k:
                got = after.reduced_matrix(sp) / tr
                d = float(np.max(np.abs(got - M / prob)))
                rep.dev("%s.measurement-rest" % lab, d, 1e-8)
                if d > 1e-8:
                    self.case["_nt"] = self.case.get("_nt", 0) + 1
                    rep.violation(locus, "rest-not-conditioned-on-reported-outcome", "%s on modes %s reported %s, but the other modes %s are "
                                  "not in the state <outcome|rho|outcome>/p of the state before the measurement (max deviation %.3e, "
                                  "outcome probability %.3e, %s)" % (name, tg, outcome, sp, d, prob, lab), self.case, detail)
                    return
                self.case["_nt"] = self.case.get("_nt", 0) + 1
            return
        # ---- gaussian / single-component bosonic: general-dyne conditioning of the snapshot taken before -------------
        if len(tg) != 1 or name == "MeasureFock":
            return
        if after.kind == "bosonic" and (len(before.w) != 1 or len(after.w) != 1):
            return
        g = rg.GState(n)
        g.mu, g.V = np.real(before.mu).astype(float).copy(), np.real(before.V).astype(float).copy()
        s = np.sqrt(self.hbar / 2.0)
        try:
            if name == "MeasureHomodyne":
                phi = float(np.real(np.asarray(ev["p"][0]).reshape(-1)[0]))
                g.condition_homodyne(tg[0], phi, float(np.real(vals[0])) / s, eps=0.0002)
            else:
                g.condition_heterodyne(tg[0], complex(vals[0]))
        except Exception as e:
            rep.error("on_measure.reference", e)
            return
        rep.monitor("measurement:" + lab)
        rep.seen("measurement-probes", "%s%s@%s modes=%s" % (name, ":select" if sel else "", lab, tuple(tg)))
        d = max(float(np.max(np.abs(np.real(after.mu) - g.mu))), float(np.max(np.abs(np.real(after.V) - g.V))))
        scale = 1 + float(np.max(np.abs(before.V))) + float(np.max(np.abs(before.mu)))
        # the simulators model homodyne detection as general-dyne detection with covariance diag(eps^2, 1/eps^2), eps = 2e-4,
        # and condition on the whole sampled pair: the discarded conjugate sample (|p| < 8/eps) moves the rest by < 8*eps
        tol = 2e-6 if (sel or name != "MeasureHomodyne") else 8 * 0.0002
        rep.dev("%s.measurement-rest/tolerance" % lab, d / scale / tol, 1.0)
        self.case["_nt"] = self.case.get("_nt", 0) + 1
        if d > tol * scale:
            rep.violation(locus, "rest-not-conditioned-on-reported-outcome", "%s on mode %s reported %s, but the state afterwards differs "
                          "from the conditional state of the snapshot taken before the measurement by %.3e (%s)" % (
                              name, tg, np.round(vals, 6).tolist() if not np.iscomplexobj(vals) else str(vals), d, lab), self.case, detail)

    def on_delete(self, ev, before, after):
        """Mode deletion (first deletion of a run: labels == positions) leaves the rest as it was."""
        rep = self.rep
        lab = self.lab()
        tg = ev["modes"]
        nb = before.n
        kept = [m for m in range(nb) if m not in tg]
        if after.n != len(kept) or not kept:
            return
        rep.monitor("delete:" + lab)
        locus = "%s.Del" % self.conf["backend"]
        detail = {"event": ev["seq"], "modes": tg, "conf": self.conf}
        if after.kind in ("gaussian", "bosonic"):
            ki = idx(nb, kept)
            d = max(np.max(np.abs(np.real(after.mu) - np.real(before.mu)[ki])),
                    np.max(np.abs(np.real(after.V) - np.real(before.V)[np.ix_(ki, ki)])))
            tol = 1e-10 * (1 + np.max(np.abs(before.V)))
        else:
            rb = before.reduced_matrix(kept) / max(before.trace, 1e-300)
            ra = after.reduced_matrix(list(range(after.n))) / max(after.trace, 1e-300)
            d = np.max(np.abs(ra - rb))
            tol = 1e-9
        if d > tol:
            rep.violation(locus, "rest-changed", "deleting modes %s changed the state of the remaining modes by %.3e (%s)" % (
                tg, d, lab), self.case, detail)


class PhysicalityObserver:
    """C07: every state is physical; unitary gates preserve purity, passive ones total photon number, loss never
    increases it, trace is lost only through truncation."""

    def __init__(self, rep, case, conf, hbar, n, simrun):
        self.rep, self.case, self.conf, self.hbar = rep, case, conf, hbar
        self.simrun = simrun
        self.lg = rg.Labelled(n)  # reference shadow (subsystem labels), used only for the truncation tail of the Fock legs
        self.g = self.lg.g
        self.gvalid = True
        self.tau_sum = 0.0
        self.tau_star = 0.0

    def on_start(self, *a):
        pass

    def on_finish(self, *a):
        pass

    def lab(self):
        c = self.conf
        if c["backend"] == "fock":
            return "fock-pure" if c.get("pure", True) else "fock-mixed"
        return c["backend"]

    def physical(self, snap, locus, detail):
        rep = self.rep
        lab = self.lab()
        n = snap.n
        if snap.kind in ("gaussian", "bosonic"):
            V = np.asarray(snap.V, dtype=float) if not np.iscomplexobj(snap.V) else snap.V
            rep.monitor("physical:" + lab)
            if np.iscomplexobj(V) and np.max(np.abs(np.imag(V))) > 1e-9:
                rep.violation(locus, "complex-covariance", "covariance has imaginary part %.3e" % np.max(np.abs(np.imag(V))),
                              self.case, detail)
                return False
            V = np.real(V)
            asym = np.max(np.abs(V - V.T))
            if asym > 1e-10 * (1 + np.max(np.abs(V))):
                rep.violation(locus, "cov-not-symmetric", "covariance asymmetry %.3e (%s)" % (asym, lab), self.case, detail)
                return False
            W = (V + V.T) / 2 + 1j * rg.omega(n)
            mn = float(np.min(np.linalg.eigvalsh(W)))
            rep.dev("%s.min-eig(V+iOmega) margin (negative part)" % lab, max(0.0, -mn), 1e-9)
            if mn < -1e-9 * (1 + np.max(np.abs(V))):
                rep.violation(locus, "uncertainty-violated", "V + i Omega has eigenvalue %.3e (%s)" % (mn, lab), self.case, detail)
                return False
            if snap.kind == "bosonic":
                sw = complex(np.sum(snap.w))
                if abs(sw - 1) > 1e-9:
                    rep.violation(locus, "weights-not-normalised", "bosonic weights sum to %r" % sw, self.case, detail)
                    return False
                for c in snap.cs:
                    if np.max(np.abs(c - np.transpose(c))) > 1e-10 * (1 + np.max(np.abs(c))):
                        rep.violation(locus, "cov-not-symmetric", "a bosonic component covariance is not symmetric",
                                      self.case, detail)
                        return False
            return True
        rep.monitor("physical:" + lab)
        if snap.pure:
            rep.monitor("physical:fock(ket representation)")
        M = snap.reduced_matrix(list(range(n)))
        herm = np.max(np.abs(M - M.conj().T))
        if herm > 1e-10:
            rep.violation(locus, "dm-not-hermitian", "density matrix deviates from Hermitian by %.3e (%s)" % (herm, lab),
                          self.case, detail)
            return False
        ev = np.linalg.eigvalsh((M + M.conj().T) / 2)
        rep.dev("%s.min-eig(dm) (negative part)" % lab, max(0.0, -float(ev[0])), 1e-9)
        if ev[0] < -1e-9:
            rep.violation(locus, "dm-not-positive", "density matrix has eigenvalue %.3e (%s)" % (ev[0], lab), self.case, detail)
            return False
        if snap.trace > 1 + 1e-9:
            rep.violation(locus, "trace-above-one", "trace %.12f (%s)" % (snap.trace, lab), self.case, detail)
            return False
        return True

    def on_command(self, ev, before, after):
        rep = self.rep
        if ev["exc"] is not None or after is None:
            return
        name = ev["name"]
        lab = self.lab()
        locus = "%s.%s" % (self.conf["backend"], name)
        detail = {"event": ev["seq"], "modes": ev["modes"], "conf": self.conf,
                  "params": rnd([x for x in ev["p"] if not isinstance(x, np.ndarray)], 8)}
        if self.gvalid:
            try:
                self.gvalid = bool(self.lg.apply(name, ev["p"], ev["modes"], ev["dagger"], self.hbar))
            except Exception:
                self.gvalid = False
        if name.startswith("Measure"):
            self.rep.monitor("physical-after-measurement")
            self.rep.seen("measurement-kinds", "%s%s@%s" % (name, ":select" if getattr(ev["op"], "select", None) is not None else "", lab))
        if name in ("_New_modes", "_Delete"):
            self.rep.monitor("physical-after-New/Del")
            self.rep.observe("structural:%s@%s" % (name, lab))
        if not self.physical(after, locus, detail):
            return
        if before is None or before.n != after.n:
            return
        n = after.n
        nontriv = False
        if after.kind in ("gaussian", "bosonic"):
            Vb, Va = np.real(before.V), np.real(after.V)
            nontriv = not np.allclose(Va, np.eye(2 * n), atol=1e-9)
            if name in UNITARY and after.kind == "gaussian":
                rep.monitor("purity:" + lab)
                db, da = np.linalg.det(Vb), np.linalg.det(Va)
                if abs(da - db) > 1e-8 * (1 + abs(db)):
                    rep.violation(locus, "purity-changed", "unitary %s changed det V from %.12g to %.12g (%s)" % (
                        name, db, da, lab), self.case, detail)
            nb, na = float(np.sum(before.mean_photons())), float(np.sum(after.mean_photons()))
            if name in PASSIVE:
                rep.monitor("photon-number:" + lab)
                if abs(na - nb) > 1e-9 * (1 + abs(nb)):
                    rep.violation(locus, "photon-number-not-conserved", "passive %s changed total <n> from %.12g to %.12g "
                                  "(%s)" % (name, nb, na, lab), self.case, detail)
            if name == "LossChannel" or (name == "PassiveChannel"):
                rep.monitor("loss-monotone:" + lab)
                if na > nb + 1e-9 * (1 + abs(nb)):
                    rep.violation(locus, "loss-increased-photons", "%s increased total <n> from %.12g to %.12g (%s)" % (
                        name, nb, na, lab), self.case, detail)
        else:
            nontriv = after.trace > 0 and np.sum(after.mean_photons()) > 1e-6
            if self.gvalid:
                tau = self.simrun.tail_mass(self.g, after.D)
                self.tau_sum += tau
                self.tau_star = max(self.tau_star, tau)
            # trace never increases through a gate or loss channel; trace lost only through truncation
            if name in UNITARY or name == "LossChannel":
                rep.monitor("trace:" + lab)
                if after.trace > before.trace + 1e-9:
                    rep.violation(locus, "trace-increased", "%s increased the trace from %.12f to %.12f (%s)" % (
                        name, before.trace, after.trace, lab), self.case, detail)
                if self.gvalid and self.tau_star <= 1e-4:
                    lost = 1.0 - after.trace
                    # (calibration: the largest loss / (sum of reference tails) seen on the unchanged tree is ~180, in a
                    # 21-command two-mode program at cutoff 10 with a lost trace of 3e-7; defects of interest - a missing
                    # Kraus operator, an unnormalised projection - lose 1e-3 ... 1e-1)
                    budget = 500 * self.tau_sum + 1e-6
                    rep.dev("%s.trace-loss/budget" % lab, lost / budget if lost > 0 else 0.0, 1.0)
                    if lost > budget:
                        rep.violation(locus, "trace-lost-beyond-truncation", "after %s the trace is %.3e below one although "
                                      "the reference tail mass beyond the cutoff sums to %.3e (%s)" % (
                                          name, lost, self.tau_sum, lab), self.case, detail)
            if self.gvalid and self.tau_star <= 1e-6:
                tol = 20 * np.sqrt(self.tau_star) + 1e-8
                nb, na = float(np.sum(before.mean_photons())), float(np.sum(after.mean_photons()))
                if name in PASSIVE:
                    rep.monitor("photon-number:" + lab)
                    if abs(na - nb) > tol * (1 + nb):
                        rep.violation(locus, "photon-number-not-conserved", "passive %s changed total <n> from %.9g to %.9g "
                                      "(tolerance %.2e, %s)" % (name, nb, na, tol, lab), self.case, detail)
                if name == "LossChannel":
                    rep.monitor("loss-monotone:" + lab)
                    if na > nb + tol * (1 + nb):
                        rep.violation(locus, "loss-increased-photons", "loss increased total <n> from %.9g to %.9g (%s)" % (
                            nb, na, lab), self.case, detail)
                if name in UNITARY:
                    rep.monitor("purity:" + lab)
                    Mb = before.reduced_matrix(list(range(n))) / max(before.trace, 1e-300)
                    Ma = after.reduced_matrix(list(range(n))) / max(after.trace, 1e-300)
                    pb, pa = float(np.real(np.sum(Mb * Mb.T))), float(np.real(np.sum(Ma * Ma.T)))
                    if abs(pa - pb) > tol:
                        rep.violation(locus, "purity-changed", "unitary %s changed the purity from %.9g to %.9g (tolerance "
                                      "%.2e, %s)" % (name, pb, pa, tol, lab), self.case, detail)
        if nontriv:
            self.case["_nt"] = self.case.get("_nt", 0) + 1
