"""RefGauss — independent phase-space reference model.

Conventions: hbar = 2 internally (x = a + a^dag, p = -i(a - a^dag), vacuum covariance = identity),
quadrature order xxpp.  Every gate is obtained from the *documented operator* (docstrings of
strawberryfields/ops.py) by exponentiating the Heisenberg generator with scipy.linalg.expm; nothing is
imported from strawberryfields.
"""
import numpy as np
from scipy.linalg import expm, block_diag


# ---------------------------------------------------------------------------------------------
# generators
# ---------------------------------------------------------------------------------------------

def _T(n):
    I = np.eye(n)
    return np.block([[I, I], [-1j * I, 1j * I]])


def symp_from_ladder(n, coeffs):
    """U = exp(K), K = sum_{(i,j)} c_ij xi_i xi_j with xi = (a_1..a_n, a_1^dag..a_n^dag).
    Returns the real 2n x 2n matrix S (xxpp) with U^dag r U = S r."""
    c = np.zeros((2 * n, 2 * n), dtype=complex)
    for (i, j), v in coeffs.items():
        c[i, j] += v
    I = np.eye(n)
    J = np.block([[np.zeros((n, n)), I], [-I, np.zeros((n, n))]])  # [xi_k, xi_i]
    M = J @ (c + c.T)
    E = expm(M)
    T = _T(n)
    S = T @ E @ np.linalg.inv(T)
    if np.max(np.abs(S.imag)) > 1e-9 * (1 + np.max(np.abs(S.real))):
        raise ValueError("generator is not anti-Hermitian: complex symplectic")
    return S.real


def omega(n):
    I = np.eye(n)
    Z = np.zeros((n, n))
    return np.block([[Z, I], [-I, Z]])


def is_symplectic(S, tol=1e-8):
    n = S.shape[0] // 2
    O = omega(n)
    return np.max(np.abs(S @ O @ S.T - O)) < tol * (1 + np.max(np.abs(S)) ** 2)


def interferometer_S(U):
    """a_i -> sum_j U_ij a_j."""
    U = np.asarray(U, dtype=complex)
    return np.block([[U.real, -U.imag], [U.imag, U.real]])


def mz_unitary(phi_in, phi_ex):
    """Documented MZgate unitary."""
    ei = np.exp(1j * phi_in)
    ee = np.exp(1j * phi_ex)
    return 0.5 * np.array([[(-1 + ei) * ee, 1j * (1 + ei)], [1j * (1 + ei) * ee, (1 - ei)]])


def smz_unitary(phi1, phi2):
    """Symmetric MZI of arXiv:2104.07561 Eq. (1): e^{i sigma} [[sin d, cos d],[cos d, -sin d]],
    sigma = (phi1+phi2)/2, d = (phi1-phi2)/2 (relation stated where the compact meshes emit sMZgate)."""
    sigma = (phi1 + phi2) / 2
    delta = (phi1 - phi2) / 2
    return np.exp(1j * sigma) * np.array([[np.sin(delta), np.cos(delta)], [np.cos(delta), -np.sin(delta)]])


def gate_sd(name, p, hbar=2.0):
    """(S, d) of a documented unitary gate; p = list of evaluated numeric parameters.
    d is in hbar=2 units."""
    p = list(p)
    if name == "Dgate":
        r, phi = p[0], (p[1] if len(p) > 1 else 0.0)
        al = r * np.exp(1j * phi)
        return np.eye(2), 2 * np.array([al.real, al.imag])
    if name == "Xgate":
        return np.eye(2), np.array([p[0] * np.sqrt(2.0 / hbar), 0.0])
    if name == "Zgate":
        return np.eye(2), np.array([0.0, p[0] * np.sqrt(2.0 / hbar)])
    if name == "Sgate":
        r, phi = p[0], (p[1] if len(p) > 1 else 0.0)
        z = r * np.exp(1j * phi)
        return symp_from_ladder(1, {(0, 0): np.conj(z) / 2, (1, 1): -z / 2}), np.zeros(2)
    if name == "Rgate":
        return symp_from_ladder(1, {(1, 0): 1j * p[0]}), np.zeros(2)
    if name == "Fouriergate":
        return symp_from_ladder(1, {(1, 0): 1j * np.pi / 2}), np.zeros(2)
    if name == "Pgate":
        s = p[0]
        c = 1j * s / 4
        return symp_from_ladder(1, {(0, 0): c, (1, 1): c, (0, 1): c, (1, 0): c}), np.zeros(2)
    if name == "BSgate":
        th = p[0] if len(p) > 0 else np.pi / 4
        ph = p[1] if len(p) > 1 else 0.0
        return (symp_from_ladder(2, {(0, 3): th * np.exp(1j * ph), (2, 1): -th * np.exp(-1j * ph)}),
                np.zeros(4))
    if name == "S2gate":
        r, phi = p[0], (p[1] if len(p) > 1 else 0.0)
        z = r * np.exp(1j * phi)
        return symp_from_ladder(2, {(2, 3): z, (0, 1): -np.conj(z)}), np.zeros(4)
    if name == "CXgate":
        s = p[0]
        return (symp_from_ladder(2, {(0, 1): -s / 2, (0, 3): s / 2, (2, 1): -s / 2, (2, 3): s / 2}),
                np.zeros(4))
    if name == "CZgate":
        c = 1j * p[0] / 2
        return symp_from_ladder(2, {(0, 1): c, (0, 3): c, (2, 1): c, (2, 3): c}), np.zeros(4)
    if name == "MZgate":
        return interferometer_S(mz_unitary(p[0], p[1])), np.zeros(4)
    if name == "sMZgate":
        return interferometer_S(smz_unitary(p[0], p[1])), np.zeros(4)
    if name == "Interferometer":
        U = np.asarray(p[0])
        return interferometer_S(U), np.zeros(2 * U.shape[0])
    if name == "GaussianTransform":
        S = np.asarray(p[0], dtype=float)
        return S, np.zeros(S.shape[0])
    if name == "Ggate":
        S = np.asarray(p[0], dtype=float)
        d = np.asarray(p[1], dtype=float) * np.sqrt(2.0 / hbar) if len(p) > 1 else np.zeros(S.shape[0])
        return S, d
    raise KeyError(name)


GAUSSIAN_GATES = {"Dgate", "Xgate", "Zgate", "Sgate", "Rgate", "Fouriergate", "Pgate", "BSgate", "S2gate",
                  "CXgate", "CZgate", "MZgate", "sMZgate", "Interferometer", "GaussianTransform", "Ggate"}


def inv_sd(S, d):
    Si = np.linalg.inv(S)
    return Si, -Si @ d


def channel_xy(name, p, hbar=2.0):
    """(X, Y, d) of a documented Gaussian channel (hbar=2: vacuum noise = 1)."""
    if name == "LossChannel":
        T = float(p[0])
        return np.sqrt(T) * np.eye(2), (1 - T) * np.eye(2), np.zeros(2)
    if name == "ThermalLossChannel":
        T, nb = float(p[0]), float(p[1])
        return np.sqrt(T) * np.eye(2), (1 - T) * (2 * nb + 1) * np.eye(2), np.zeros(2)
    if name == "PassiveChannel":
        Tm = np.atleast_2d(np.asarray(p[0], dtype=complex))
        X = interferometer_S(Tm)
        Y = np.eye(2 * Tm.shape[0]) - X @ X.T
        return X, Y, np.zeros(2 * Tm.shape[0])
    if name == "MSgate":
        # average map of measurement-based squeezing (Phys. Rev. A 90, 060302 / bosonic backend docs):
        # target squeezing r at phase phi using an ancilla squeezed by r_anc, detected with efficiency eta.
        r, phi, r_anc, eta = float(p[0]), float(p[1]), float(p[2]), float(p[3])
        return msgate_avg_xy(r, phi, r_anc, eta)
    raise KeyError(name)


def msgate_avg_xy(r, phi, r_anc, eta):
    """Average map of the measurement-based squeezing gadget, derived from its circuit description
    (ops.MSgate docstring): ancilla squeezed by r_anc in x, beamsplitter with cos(theta) = e^{-|r|},
    ancilla p-quadrature measured with efficiency eta, feed-forward gain g = -tan(theta)/sqrt(eta)
    chosen so that the anti-squeezed ancilla noise cancels:
        x_out = cos(theta) x + sin(theta) x_anc          -> noise sin^2(theta) e^{-2 r_anc}
        p_out = p / cos(theta) - tan(theta) sqrt((1-eta)/eta) p_vac
    conjugated by rotations -phi/2, +phi/2 (r < 0: phi -> phi + pi)."""
    if r < 0:
        phi = phi + np.pi
    r = abs(r)
    ct = np.exp(-r)
    st2 = 1 - ct ** 2
    X0 = np.diag([ct, 1 / ct])
    Y0 = np.diag([st2 * np.exp(-2 * r_anc), (st2 / ct ** 2) * (1 - eta) / eta])
    Rm, _ = gate_sd("Rgate", [-phi / 2])
    Rp, _ = gate_sd("Rgate", [phi / 2])
    X = Rp @ X0 @ Rm
    Y = Rp @ Y0 @ Rp.T
    return X, Y, np.zeros(2)


# ---------------------------------------------------------------------------------------------
# Gaussian state
# ---------------------------------------------------------------------------------------------

class GState:
    """Single Gaussian state (mu, V), n modes, xxpp, hbar = 2."""

    def __init__(self, n):
        self.n = n
        self.mu = np.zeros(2 * n)
        self.V = np.eye(2 * n)

    def copy(self):
        g = GState(self.n)
        g.mu = self.mu.copy()
        g.V = self.V.copy()
        return g

    def idx(self, modes):
        modes = list(modes)
        return np.array(modes + [self.n + m for m in modes], dtype=int)

    def add_modes(self, k):
        n2 = self.n + k
        mu = np.zeros(2 * n2)
        V = np.eye(2 * n2)
        old = np.array(list(range(self.n)) + [n2 + m for m in range(self.n)], dtype=int)
        mu[old] = self.mu
        V[np.ix_(old, old)] = self.V
        self.n, self.mu, self.V = n2, mu, V

    def remove_modes(self, positions):
        """Trace out the modes at the given positions; the remaining modes keep their order."""
        keep = [m for m in range(self.n) if m not in set(positions)]
        ix = self.idx(keep)
        self.mu = self.mu[ix].copy()
        self.V = self.V[np.ix_(ix, ix)].copy()
        self.n = len(keep)

    def apply_sd(self, S, d, modes):
        ix = self.idx(modes)
        self.V[ix, :] = S @ self.V[ix, :]
        self.V[:, ix] = self.V[:, ix] @ S.T
        self.mu[ix] = S @ self.mu[ix] + d

    def apply_xy(self, X, Y, d, modes):
        ix = self.idx(modes)
        self.V[ix, :] = X @ self.V[ix, :]
        self.V[:, ix] = self.V[:, ix] @ X.T
        self.V[np.ix_(ix, ix)] += Y
        self.mu[ix] = X @ self.mu[ix] + d

    def prepare(self, modes, mu_t, V_t):
        ix = self.idx(modes)
        self.V[ix, :] = 0
        self.V[:, ix] = 0
        self.V[np.ix_(ix, ix)] = V_t
        self.mu[ix] = mu_t

    def reduced(self, modes):
        ix = self.idx(modes)
        return self.mu[ix].copy(), self.V[np.ix_(ix, ix)].copy()

    # -- measurements ---------------------------------------------------------------------
    def homodyne_dist(self, mode, phi):
        """mean and variance of x_phi = cos(phi) x + sin(phi) p of `mode`."""
        u = np.zeros(2 * self.n)
        u[mode] = np.cos(phi)
        u[self.n + mode] = np.sin(phi)
        return float(u @ self.mu), float(u @ self.V @ u)

    def condition_general_dyne(self, mode, Vm, outcome, reset=True):
        """Condition on a general-dyne outcome on `mode` (measurement covariance Vm, outcome vector in
        (x,p)); the measured mode is reset to vacuum when reset=True."""
        rest = [m for m in range(self.n) if m != mode]
        ia = self.idx(rest)
        ib = self.idx([mode])
        A = self.V[np.ix_(ia, ia)]
        B = self.V[np.ix_(ia, ib)]
        C = self.V[np.ix_(ib, ib)]
        K = B @ np.linalg.inv(C + Vm)
        A2 = A - K @ B.T
        ma = self.mu[ia] + K @ (np.asarray(outcome, dtype=float) - self.mu[ib])
        self.V[np.ix_(ia, ia)] = A2
        self.mu[ia] = ma
        self.V[ib, :] = 0
        self.V[:, ib] = 0
        self.V[np.ix_(ib, ib)] = np.eye(2)
        self.mu[ib] = 0

    def condition_homodyne(self, mode, phi, value, eps=0.0):
        """Project `mode` on the x_phi = value eigenstate (hbar=2 units), reset it to vacuum."""
        # rotate so that x_phi becomes x: R(-phi)
        S, d = gate_sd("Rgate", [-phi])
        self.apply_sd(S, d, [mode])
        rest = [m for m in range(self.n) if m != mode]
        ia = self.idx(rest)
        ib = self.idx([mode])
        A = self.V[np.ix_(ia, ia)]
        B = self.V[np.ix_(ia, ib)]
        C = self.V[np.ix_(ib, ib)]
        # ideal homodyne: pseudo-inverse form  K = B Pi (Pi C Pi)^+ with Pi = diag(1,0)
        cxx = C[0, 0] + eps ** 2
        K = np.zeros_like(B)
        K[:, 0] = B[:, 0] / cxx
        A2 = A - np.outer(B[:, 0], B[:, 0]) / cxx
        ma = self.mu[ia] + K[:, 0] * (value - self.mu[ib][0])
        self.V[np.ix_(ia, ia)] = A2
        self.mu[ia] = ma
        self.V[ib, :] = 0
        self.V[:, ib] = 0
        self.V[np.ix_(ib, ib)] = np.eye(2)
        self.mu[ib] = 0

    def condition_heterodyne(self, mode, alpha):
        self.condition_general_dyne(mode, np.eye(2), [2 * np.real(alpha), 2 * np.imag(alpha)])

    # -- observables ----------------------------------------------------------------------
    def mean_photon(self, mode):
        m, V = self.reduced([mode])
        return float((np.trace(V) + m @ m) / 4 - 0.5)

    def total_photon(self):
        return float((np.trace(self.V) + self.mu @ self.mu) / 4 - 0.5 * self.n)

    def is_physical(self, tol=1e-9):
        W = self.V + 1j * omega(self.n)
        return np.min(np.linalg.eigvalsh((W + W.conj().T) / 2)) > -tol


# preparations -------------------------------------------------------------------------------

def prep_mv(name, p, hbar=2.0):
    """(mu, V) of a documented single-mode Gaussian preparation (hbar = 2 units)."""
    if name == "Vacuum":
        return np.zeros(2), np.eye(2)
    if name == "Coherent":
        r, phi = (list(p) + [0.0, 0.0])[:2]
        al = r * np.exp(1j * phi)
        return 2 * np.array([al.real, al.imag]), np.eye(2)
    if name == "Squeezed":
        r, phi = (list(p) + [0.0, 0.0])[:2]
        S, _ = gate_sd("Sgate", [r, phi])
        return np.zeros(2), S @ S.T
    if name == "DisplacedSqueezed":
        r_d, phi_d, r_s, phi_s = (list(p) + [0.0] * 4)[:4]
        S, _ = gate_sd("Sgate", [r_s, phi_s])
        al = r_d * np.exp(1j * phi_d)
        return 2 * np.array([al.real, al.imag]), S @ S.T
    if name == "Thermal":
        return np.zeros(2), (2 * p[0] + 1) * np.eye(2)
    raise KeyError(name)


GAUSSIAN_PREPS = {"Vacuum", "Coherent", "Squeezed", "DisplacedSqueezed", "Thermal"}
GAUSSIAN_CHANNELS = {"LossChannel", "ThermalLossChannel", "PassiveChannel", "MSgate"}


def apply_op(g, name, p, modes, dagger=False, hbar=2.0):
    """Advance GState g by one front-end command. Returns True when handled."""
    if name in GAUSSIAN_GATES:
        S, d = gate_sd(name, p, hbar)
        if dagger:
            S, d = inv_sd(S, d)
        g.apply_sd(S, d, modes)
        return True
    if name in GAUSSIAN_CHANNELS:
        X, Y, d = channel_xy(name, p, hbar)
        g.apply_xy(X, Y, d, modes)
        return True
    if name in GAUSSIAN_PREPS:
        m, V = prep_mv(name, p, hbar)
        g.prepare(modes, m, V)
        return True
    if name == "Gaussian":
        V = np.asarray(p[0], dtype=float) / (hbar / 2.0)
        n = V.shape[0] // 2
        r = np.asarray(p[1], dtype=float) / np.sqrt(hbar / 2.0) if len(p) > 1 and p[1] is not None else np.zeros(2 * n)
        g.prepare(modes, r, V)
        return True
    return False


class Labelled:
    """GState whose modes carry subsystem labels: New appends fresh vacuum modes under new labels, Del traces labels out,
    every other command is applied at the current positions of its labels (the simulators return the live modes in
    label order, so positions here are positions there)."""

    def __init__(self, n):
        self.g = GState(n)
        self.labels = list(range(n))

    def pos(self, modes):
        return [self.labels.index(m) for m in modes]

    def apply(self, name, p, modes, dagger=False, hbar=2.0):
        """Returns True when handled."""
        if name in ("New", "_New_modes"):
            self.g.add_modes(len(modes))
            self.labels += list(modes)
            return True
        if name in ("Del", "_Delete"):
            self.g.remove_modes(self.pos(modes))
            self.labels = [x for x in self.labels if x not in set(modes)]
            return True
        return apply_op(self.g, name, p, self.pos(modes), dagger, hbar)


def net_action(cmds, nmodes, hbar=2.0):
    """Net (X, Y, d) of a list of (name, params, modes, dagger) acting on nmodes, as an affine map on
    (mu, V): mu -> X mu + d, V -> X V X^T + Y. Preparations are treated as replace-maps (X rows = 0)."""
    X = np.eye(2 * nmodes)
    Y = np.zeros((2 * nmodes, 2 * nmodes))
    d = np.zeros(2 * nmodes)
    for (name, p, modes, dagger) in cmds:
        ix = np.array(list(modes) + [nmodes + m for m in modes], dtype=int)
        if name in GAUSSIAN_GATES:
            S, dd = gate_sd(name, p, hbar)
            if dagger:
                S, dd = inv_sd(S, dd)
            Xl, Yl = S, np.zeros_like(S)
        elif name in GAUSSIAN_CHANNELS:
            Xl, Yl, dd = channel_xy(name, p, hbar)
        elif name in GAUSSIAN_PREPS:
            m, V = prep_mv(name, p, hbar)
            Xl, Yl, dd = np.zeros((2, 2)), V, m
        elif name == "Gaussian":
            V = np.asarray(p[0], dtype=float) / (hbar / 2.0)
            k = V.shape[0]
            r = np.asarray(p[1], dtype=float) / np.sqrt(hbar / 2.0) if len(p) > 1 and p[1] is not None else np.zeros(k)
            Xl, Yl, dd = np.zeros((k, k)), V, r
        else:
            raise KeyError(name)
        X[ix, :] = Xl @ X[ix, :]
        Y[ix, :] = Xl @ Y[ix, :]
        Y[:, ix] = Y[:, ix] @ Xl.T
        Y[np.ix_(ix, ix)] += Yl
        d[ix] = Xl @ d[ix] + dd
    return X, Y, d


def random_state(rng, n, energy=0.6, mixed=True, displaced=True):
    """Random entangled (optionally mixed / displaced) n-mode Gaussian state."""
    g = GState(n)
    for m in range(n):
        S, d = gate_sd("Sgate", [rng.uniform(-energy, energy), rng.uniform(0, 2 * np.pi)])
        g.apply_sd(S, d, [m])
    if n > 1:
        from scipy.stats import unitary_group

        U = unitary_group.rvs(n, random_state=rng.integers(2 ** 31))
        g.apply_sd(interferometer_S(U), np.zeros(2 * n), list(range(n)))
    if mixed:
        for m in range(n):
            X, Y, d = channel_xy("ThermalLossChannel", [rng.uniform(0.6, 1.0), rng.uniform(0, 0.5)])
            g.apply_xy(X, Y, d, [m])
    if displaced:
        g.mu = g.mu + rng.normal(0, energy, size=2 * n)
    return g
