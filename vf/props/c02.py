"""C02 — decomposed operations implement exactly the documented transformation.

Monitor: every return of Compiler.decompose reached through the real Program.compile(compiler=...) (and of
Operation.decompose called directly) is intercepted; the returned primitive sequence is folded into a net
affine map (X, Y, d) by the reference semantics of the *primitives* and compared with the reference semantics
of the *composite* it replaces (documented operators / matrices).  Graph embeddings are judged on the state
they prepare from vacuum (pure, A-matrix proportional to the adjacency matrix, requested mean photon number).
A second oracle runs Gaussian(decomp=False) against its decomposition on the real gaussian backend.
"""
import numpy as np

from ..common import setup_paths, rnd, enc, dec as jdec
from ..instrument import ReachMonitor
from .. import refgauss as rg, gen

PROPERTY = "C02"
RULE = ("every decomposable class (Xgate, Zgate, Pgate, Fouriergate, CXgate, CZgate, S2gate, MZgate, sMZgate, Interferometer "
        "under all seven meshes and both drop_identity values, GaussianTransform active/passive/vacuum, Gaussian in all "
        "branches of its decomposition, GraphEmbed, BipartiteGraphEmbed, DisplacedSqueezed) x compile targets {gaussian, fock, "
        "bosonic, gbs, direct decompose} x ordered target modes inside a larger register x dagger x boundary-heavy parameters "
        "(0, signs, multiples of pi/4, 1e-14 around the decomposition tolerance) x matrix classes (Haar, orthogonal, "
        "permutation, identity, diagonal, block-diagonal, exact zeros, degenerate) of size 1-6 x hbar in {2, 1, 0.5}; "
        "non-trivial = the composite is not the identity and its decomposition has >= 1 command; distinct = rounded case.")
ASSUMPTIONS = [
    "RefGauss semantics of the primitives (D, S, R, BS, MZ, S2, preparations) and of the composites are derived "
    "independently from the documented operators",
    "tolerance 1e-8 (1e-6 * norm for meshes of size >= 5)",
    "'for every real parameter' is only sampled densely, no symbolic argument is made",
]
REQUIRED_MONITORS = ["decompose:returned", "net-action:gate", "net-action:interferometer", "net-action:gaussian-transform",
                     "prepared-state:Gaussian", "prepared-state:graph-embed", "dagger:inverse", "exec:Gaussian-decomp-vs-native"]

SCALAR = ["Xgate", "Zgate", "Pgate", "Fouriergate", "CXgate", "CZgate", "S2gate", "MZgate", "sMZgate"]
NARGS = {"Xgate": 1, "Zgate": 1, "Pgate": 1, "Fouriergate": 0, "CXgate": 1, "CZgate": 1, "S2gate": 2, "MZgate": 2, "sMZgate": 2}
NS = {"Xgate": 1, "Zgate": 1, "Pgate": 1, "Fouriergate": 1, "CXgate": 2, "CZgate": 2, "S2gate": 2, "MZgate": 2, "sMZgate": 2}
MESHES = ["rectangular", "rectangular_phase_end", "rectangular_symmetric", "triangular", "rectangular_compact",
          "triangular_compact", "sun_compact"]
TARGETS = {"Xgate": ["gaussian", "fock", "bosonic", "gbs", "direct"], "Zgate": ["gaussian", "fock", "bosonic", "gbs", "direct"],
           "Pgate": ["gaussian", "fock", "bosonic", "direct"], "Fouriergate": ["gaussian", "fock", "bosonic", "gbs", "direct"],
           "CXgate": ["gaussian", "fock", "bosonic", "direct"], "CZgate": ["gaussian", "fock", "bosonic", "direct"],
           "S2gate": ["gaussian", "bosonic", "gbs", "direct"], "MZgate": ["gaussian", "bosonic", "direct"],
           "sMZgate": ["gaussian", "fock", "direct"], "Interferometer": ["gaussian", "fock", "direct"],
           "GaussianTransform": ["gaussian", "fock", "direct"], "Gaussian": ["gaussian", "fock", "direct"],
           "GraphEmbed": ["gaussian", "fock", "direct"], "BipartiteGraphEmbed": ["gaussian", "fock", "direct"],
           "DisplacedSqueezed": ["direct"]}


def load(rep):
    setup_paths()
    import strawberryfields as sf
    from strawberryfields import ops
    import strawberryfields.program_utils as pu
    from strawberryfields.compilers.compiler import Compiler
    from .. import sfutil

    env = {"sf": sf, "ops": ops, "pu": pu, "sfutil": sfutil, "Compiler": Compiler}
    orig = Compiler.decompose

    def decompose(self, seq):
        out = orig(self, seq)
        rep.monitor("decompose:returned")
        return out

    Compiler.decompose = decompose
    return env


def value(rng):
    r = rng.random()
    if r < 0.3:
        return float(rng.choice(gen.BOUNDARY_ANGLES + [1e-6, -1e-6, 5e-15, 1.0, -1.0]))
    return float(rng.uniform(-2.5, 2.5))


def gen_case(rng):
    fam = str(rng.choice(["scalar", "scalar", "scalar", "interferometer", "interferometer", "gtransform", "gaussian", "graph",
                          "bipartite", "dispsq"]))
    hbar = float(rng.choice([2.0, 2.0, 1.0, 0.5]))
    nreg = int(rng.integers(1, 4))
    if fam == "scalar":
        name = str(rng.choice(SCALAR))
        ns = NS[name]
        n = ns + nreg - 1
        modes = [int(x) for x in rng.choice(n, ns, replace=False)]
        p = [value(rng) for _ in range(NARGS[name])]
        return {"op": name, "p": p, "modes": modes, "n": n, "dag": bool(rng.random() < 0.35 and NARGS[name] > 0),
                "target": str(rng.choice(TARGETS[name])), "hbar": hbar}
    if fam == "interferometer":
        mesh = str(rng.choice(MESHES))
        k = int(rng.integers(3 if mesh == "sun_compact" else 1, 7))
        cls, U, valid = gen.unitary_class(rng, k)
        while valid is not True:
            cls, U, valid = gen.unitary_class(rng, k)
        n = k + nreg - 1
        modes = [int(x) for x in rng.choice(n, k, replace=False)]
        return {"op": "Interferometer", "p": [enc(U)], "kw": {"mesh": mesh, "drop_identity": bool(rng.integers(2))},
                "modes": modes, "n": n, "dag": False, "target": str(rng.choice(TARGETS["Interferometer"])), "hbar": hbar, "cls": cls}
    if fam == "gtransform":
        k = int(rng.integers(1, 5))
        cls, S, valid = gen.symplectic_class(rng, k)
        while valid is not True:
            cls, S, valid = gen.symplectic_class(rng, k)
        n = k + nreg - 1
        modes = [int(x) for x in rng.choice(n, k, replace=False)]
        return {"op": "GaussianTransform", "p": [enc(S)], "kw": {"vacuum": bool(rng.random() < 0.25)}, "modes": modes, "n": n,
                "dag": False, "target": str(rng.choice(TARGETS["GaussianTransform"])), "hbar": hbar, "cls": cls}
    if fam == "gaussian":
        k = int(rng.integers(1, 4))
        branch = str(rng.choice(["pure_diag", "pure_blockdiag", "thermal_diag", "general_pure", "general_mixed", "vacuum"]))
        if branch == "pure_diag":
            r = rng.uniform(-0.8, 0.8, k) * (rng.random(k) < 0.8)
            V = np.diag(np.concatenate([np.exp(-2 * r), np.exp(2 * r)]))
        elif branch == "pure_blockdiag":
            V = np.eye(2 * k)
            for m in range(k):
                S, _ = rg.gate_sd("Sgate", [rng.uniform(-0.8, 0.8) * (rng.random() < 0.8), rng.uniform(0, 6.28)])
                ix = [m, k + m]
                V[np.ix_(ix, ix)] = S @ S.T
        elif branch == "thermal_diag":
            nu = 1 + 2 * rng.uniform(0, 1, k) * (rng.random(k) < 0.8)
            V = np.diag(np.concatenate([nu, nu]))
        elif branch == "vacuum":
            V = np.eye(2 * k)
        else:
            S = gen.random_symplectic(rng, k, True, rng.uniform(-0.6, 0.6, k))
            nu = np.ones(k) if branch == "general_pure" else 1 + rng.uniform(0, 1, k)
            V = S @ np.diag(np.concatenate([nu, nu])) @ S.T
        r = rng.uniform(-1, 1, 2 * k) * (rng.random(2 * k) < 0.7) if rng.random() < 0.7 else None
        n = k + nreg - 1
        modes = [int(x) for x in rng.choice(n, k, replace=False)]
        return {"op": "Gaussian", "p": [enc(V * hbar / 2)] + ([enc(r * np.sqrt(hbar / 2))] if r is not None else []), "modes": modes,
                "n": n, "dag": False, "target": str(rng.choice(TARGETS["Gaussian"])), "hbar": hbar, "cls": branch}
    if fam == "graph":
        k = int(rng.integers(2, 6))
        cls, A, valid = gen.adjacency_class(rng, k)
        while valid is not True or np.iscomplexobj(A) and cls == "complex" and False:
            cls, A, valid = gen.adjacency_class(rng, k)
        return {"op": "GraphEmbed", "p": [enc(A)], "kw": {"mean_photon_per_mode": float(rng.choice([0.2, 0.5, 1.0])),
                                                          "make_traceless": bool(rng.random() < 0.4)},
                "modes": list(range(k)), "n": k, "dag": False, "target": str(rng.choice(TARGETS["GraphEmbed"])), "hbar": hbar, "cls": cls}
    if fam == "bipartite":
        k = int(rng.integers(1, 4))
        cls, B, valid = gen.bipartite_class(rng, k)
        while valid is not True:
            cls, B, valid = gen.bipartite_class(rng, k)
        return {"op": "BipartiteGraphEmbed", "p": [enc(B)], "kw": {"mean_photon_per_mode": float(rng.choice([0.2, 0.5, 1.0])),
                                                                     "edges": True, "drop_identity": bool(rng.integers(2))},
                "modes": list(range(2 * k)), "n": 2 * k, "dag": False, "target": str(rng.choice(TARGETS["BipartiteGraphEmbed"])),
                "hbar": hbar, "cls": cls}
    n = nreg
    return {"op": "DisplacedSqueezed", "p": [abs(value(rng)) * 0.3, value(rng), value(rng) * 0.3, value(rng)], "modes": [int(rng.integers(n))],
            "n": n, "dag": False, "target": "direct", "hbar": hbar}


def fully_decompose(env, cmds, depth=0):
    """Direct recursion: Operation.decompose until only reference primitives are left."""
    out = []
    for c in cmds:
        name = type(c.op).__name__
        if name in ("Dgate", "Sgate", "Rgate", "BSgate", "Vacuum", "Squeezed", "Thermal", "Coherent") or depth > 6:
            out.append(c)
            continue
        try:
            sub = c.op.decompose(c.reg)
        except NotImplementedError:
            out.append(c)
            continue
        out.extend(fully_decompose(env, sub, depth + 1))
    return out


def run_case(case, rep, env):
    sf, ops, sfutil = env["sf"], env["ops"], env["sfutil"]
    hbar = case["hbar"]
    sf.hbar = hbar
    try:
        _run(case, rep, env, hbar)
    finally:
        sf.hbar = 2


def _run(case, rep, env, hbar):
    sf, ops, sfutil = env["sf"], env["ops"], env["sfutil"]
    name, n, modes, target = case["op"], case["n"], case["modes"], case["target"]
    p = [jdec(x) for x in case["p"]]
    kw = dict(case.get("kw", {}))
    V = lambda kind, what, detail=None: rep.violation("%s.decompose" % name, kind, what, case, detail)
    try:
        op = getattr(ops, name)(*p, **kw)
    except Exception as e:
        rep.case([rnd(case, 6)], False)
        rep.observe("constructor-raised:%s:%s" % (name, type(e).__name__))
        if name in ("Interferometer", "GaussianTransform", "Gaussian", "GraphEmbed", "BipartiteGraphEmbed"):
            V("constructor-rejects-valid-input:" + case.get("cls", ""), "%s(%s input) raised %s: %s" % (
                name, case.get("cls"), type(e).__name__, str(e)[:150]))
        return
    if case.get("dag"):
        op = op.H
    prog = sf.Program(n)
    with prog.context as q:
        regs = tuple(q[i] for i in modes)
        op | (regs if len(regs) > 1 else regs[0])
    try:
        if target == "direct":
            cmds = fully_decompose(env, list(prog.circuit))
        else:
            cmds = prog.compile(compiler=target).circuit
    except Exception as e:
        rep.case([rnd(case, 6)], False)
        nm = type(e).__name__
        if nm in ("CircuitError", "NotImplementedError"):
            rep.observe("compile-rejected:%s:%s:%s" % (name, target, nm))
            return
        kind = "exception:" + nm
        V(kind, "%s for target %s raised %s: %s" % (name, target, nm, str(e)[:150]))
        return
    tuples = [sfutil.cmd_tuple(c) for c in cmds]
    lab = "%s@%s%s" % (name, target, ":" + kw["mesh"] if "mesh" in kw else "")
    rep.seen("class-x-target", lab)
    try:
        got = rg.net_action(tuples, n, hbar)
    except KeyError as e:
        rep.error("net_action:%s" % e, e)
        return
    nontrivial = len(cmds) >= 1
    # ---- documented action of the composite ---------------------------------------------------------------
    k = len(modes)
    tolbase = 1e-8 if k < 5 else 1e-6
    if name in SCALAR + ["Interferometer", "GaussianTransform"]:
        pp = p
        if name == "GaussianTransform":
            mon = "net-action:gaussian-transform"
        elif name == "Interferometer":
            mon = "net-action:interferometer"
        else:
            mon = "net-action:gate"
        exp = rg.net_action([(name, pp, modes, bool(case.get("dag")))], n, hbar)
        rep.monitor(mon)
        if case.get("dag"):
            rep.monitor("dagger:inverse")
        if name == "GaussianTransform" and kw.get("vacuum"):
            # documented: only valid on vacuum input -> compare the prepared state
            a = (got[0] @ got[0].T + got[1], got[2])
            b = (exp[0] @ exp[0].T + exp[1], exp[2])
            err = max(np.max(np.abs(a[0] - b[0])), np.max(np.abs(a[1] - b[1])))
            scale = 1 + np.max(np.abs(b[0]))
        else:
            err = max(np.max(np.abs(x - y)) for x, y in zip(got, exp))
            scale = 1 + max(np.max(np.abs(x)) for x in exp)
        ident = all(np.allclose(x, y, atol=1e-12) for x, y in zip(exp, (np.eye(2 * n), np.zeros((2 * n, 2 * n)), np.zeros(2 * n))))
        rep.case([rnd(case, 6)], nontrivial and not ident,
                 sample={k2: v for k2, v in case.items() if k2 != "p"} if rep.evaluations % 173 == 9 else None)
        rep.dev("%s.net-action" % ("mesh" if name == "Interferometer" else "gate"), err / scale, tolbase)
        if err > tolbase * scale:
            kind = "net-action"
            if name == "Interferometer":
                kind = "net-action:mesh=%s" % kw.get("mesh")
            if case.get("dag"):
                kind += ":dagger"
            V(kind, "%s%s on modes %s compiled for '%s' into %d commands whose net action differs from the documented "
              "transformation by %.3e (%s)" % (name, ".H" if case.get("dag") else "", modes, target, len(cmds), err,
                                              rnd([x for x in p if not isinstance(x, np.ndarray)], 6) or case.get("cls")),
              {"cmds": [str(c) for c in cmds][:12]})
        return
    # ---- preparations: state prepared from an arbitrary prior = documented (mu, V) on the targets ------------
    ix = np.array(modes + [n + m for m in modes])
    Vprep = got[1][np.ix_(ix, ix)]
    mprep = got[2][ix]
    replaced = np.max(np.abs(got[0][ix, :])) < 1e-9  # X rows zero: previous state of the targets is discarded
    rep.case([rnd({kk: vv for kk, vv in case.items() if kk != "p"}, 6), rnd(p, 5)], nontrivial,
             sample={k2: v for k2, v in case.items() if k2 != "p"} if rep.evaluations % 173 == 9 else None)
    if name in ("Gaussian", "DisplacedSqueezed"):
        rep.monitor("prepared-state:Gaussian")
        if name == "Gaussian":
            Vexp = np.asarray(p[0]) / (hbar / 2.0)
            mexp = np.asarray(p[1]) / np.sqrt(hbar / 2.0) if len(p) > 1 else np.zeros(2 * k)
        else:
            mexp, Vexp = rg.prep_mv("DisplacedSqueezed", p, hbar)
        if not replaced:
            V("not-a-preparation:" + case.get("cls", ""), "decomposition of %s does not discard the previous state of its targets" % name)
            return
        err = max(np.max(np.abs(Vprep - Vexp)), np.max(np.abs(mprep - mexp)))
        rep.dev("Gaussian.prepared-state", err, 1e-7)
        if err > 1e-7 * (1 + np.max(np.abs(Vexp))):
            V("prepared-state:" + case.get("cls", ""), "%s (%s branch, hbar=%.1f) on modes %s compiled for '%s' prepares a state that "
              "differs from the requested (mu, V) by %.3e" % (name, case.get("cls"), hbar, modes, target, err),
              {"cmds": [str(c) for c in cmds][:12]})
        return
    # ---- graph embeddings: judged on vacuum input ------------------------------------------------------------
    rep.monitor("prepared-state:graph-embed")
    X, Y, d = got
    Vout = (X @ X.T + Y)[np.ix_(ix, ix)]
    A = np.asarray(p[0])
    if name == "BipartiteGraphEmbed":
        B = A
        kk = B.shape[0]
        A = np.block([[np.zeros((kk, kk)), B], [B.T, np.zeros((kk, kk))]])
    if kw.get("make_traceless"):
        A = A - np.trace(A) * np.eye(len(A)) / len(A)
    nm = len(A)
    if abs(np.linalg.det(Vout) - 1) > 1e-6:
        V("graph-state-not-pure", "%s: prepared state has det V = %.8f" % (name, np.linalg.det(Vout)))
        return
    # A-matrix of the prepared state: A = B (+) B*, B from the complex covariance (Hamilton et al.)
    from thewalrus.quantum import Amat

    Am = Amat(Vout, hbar=2)
    Bm = Am[:nm, :nm]
    if np.max(np.abs(Am[:nm, nm:])) > 1e-7:
        V("graph-state-not-pure", "%s: A matrix has a non-zero off-diagonal block" % name)
        return
    na, nb = np.linalg.norm(A), np.linalg.norm(Bm)
    if na > 1e-12:
        c = nb / na
        # proportional up to the conjugation convention of the A matrix
        err = min(np.max(np.abs(Bm - c * A)), np.max(np.abs(Bm - c * np.conj(A))))
        if err > 1e-6 * (1 + nb):
            V("graph-not-encoded:" + case.get("cls", ""), "%s for '%s': the prepared state's A matrix is not proportional to the "
              "adjacency matrix (deviation %.3e)" % (name, target, err), {"cmds": [str(cc) for cc in cmds][:10]})
            return
    nbar = (np.trace(Vout) / 4 - nm / 2.0) / nm
    want = kw.get("mean_photon_per_mode", 1.0)
    if abs(nbar - want) > 1e-6 * (1 + want):
        V("graph-mean-photon", "%s: mean photon number per mode %.8f, requested %.8f" % (name, nbar, want))


def exec_gaussian_native(rep, env, rng, ncases):
    """Gaussian(decomp=False) (applied natively) vs its decomposition on the real gaussian backend."""
    sf, ops = env["sf"], env["ops"]
    for _ in range(ncases):
        k = int(rng.integers(1, 4))
        n = k + int(rng.integers(0, 2))
        modes = [int(x) for x in rng.choice(n, k, replace=False)]
        S = gen.random_symplectic(rng, k, True, rng.uniform(-0.6, 0.6, k))
        nu = 1 + rng.uniform(0, 1, k) * (rng.random() < 0.5)
        hbar = float(rng.choice([2.0, 0.5]))
        Vm = S @ np.diag(np.concatenate([nu, nu])) @ S.T * hbar / 2
        r = rng.uniform(-1, 1, 2 * k)
        case = {"exec": True, "V": enc(Vm), "r": enc(r), "modes": modes, "n": n, "hbar": hbar}
        sf.hbar = hbar
        try:
            st = []
            for decomp in (True, False):
                prog = sf.Program(n)
                with prog.context as q:
                    for m in range(n):
                        ops.Sgate(0.3, 0.2 * m) | q[m]
                    if n > 1:
                        ops.BSgate(0.5, 0.1) | (q[0], q[n - 1])
                    ops.Gaussian(Vm, r, decomp=decomp) | tuple(q[i] for i in modes)
                res = sf.Engine("gaussian").run(prog)
                st.append((res.state.means(), res.state.cov()))
            rep.monitor("exec:Gaussian-decomp-vs-native")
            rep.case(["exec", rnd(Vm, 5), modes, hbar], True)
            d = max(np.max(np.abs(st[0][0] - st[1][0])), np.max(np.abs(st[0][1] - st[1][1])))
            if d > 1e-7:
                rep.violation("Gaussian.decompose", "native-vs-decomposed", "Gaussian(V, r) on modes %s (hbar=%.1f) gives states "
                              "differing by %.3e when decomposed vs applied natively on the gaussian backend" % (modes, hbar, d), case)
        finally:
            sf.hbar = 2


def plan(tier, seed, scale=1.0):
    n = int((400 if tier == "quick" else 12000) * scale)
    return [{"n": n, "timeout": 6000} for _ in range(16)]


def run_shard(shard, rep):
    env = load(rep)
    ops = env["ops"]
    rng = np.random.default_rng([shard["seed"], shard["id"], 2])
    funcs = [ops._rectangular_compact_cmds, ops._triangular_compact_cmds, ops._sun_compact_cmds,
             ops.Interferometer._decompose, ops.Gaussian._decompose, ops.Gate.decompose, ops.GaussianTransform._decompose,
             ops.BipartiteGraphEmbed._decompose, ops.GraphEmbed._decompose]
    with ReachMonitor(funcs) as rm:
        for _ in range(shard["n"]):
            case = gen_case(rng)
            try:
                run_case(case, rep, env)
            except Exception as e:
                rep.error("run_case:" + case["op"], e)
        try:
            exec_gaussian_native(rep, env, rng, max(4, shard["n"] // 20))
        except Exception as e:
            rep.error("exec", e)
        rm.flush(rep)


def replay(case, rep):
    env = load(rep)
    if case.get("exec"):
        exec_gaussian_native(rep, env, np.random.default_rng(0), 10)
    else:
        run_case(case, rep, env)
