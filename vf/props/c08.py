"""C08 — register and simulator agree on which modes exist, for every history.

History + executable model: the model is a dict  index -> coherent amplitude  with a monotone allocator.
Every mode is tagged at creation with a unique coherent amplitude (unique-id trick); the history only uses
displacements, rotations, beamsplitters and homodyne measurements, under which a product of coherent states
stays a product of coherent states, so the tag of every live index stays readable from the returned state.
After each program segment the live set, order and labels reported by Program.register, backend.get_modes()
and Result.state must equal the model, and the displacement read at each position must be the model's tag
for that index.  Illegal accesses (deleted / unknown indices) are attempted on purpose at the program level
(must raise RegRefError) and at the backend API (must raise ValueError / IndexError and leave the state
bit-identical).
"""
import numpy as np

from ..common import setup_paths, rnd

PROPERTY = "C08"
RULE = ("seeded histories of 1-5 program segments on one engine, each with 1-8 actions from {New(1-3) (also first), "
        "Del (single / several, first / last / middle), Dgate, Rgate, BSgate on live modes, MeasureHomodyne, illegal access}; "
        "initial registers of 1-4 modes, at most 4 live Fock modes; backends gaussian, bosonic, fock(pure/mixed). "
        "non-trivial = the history contains a Del followed by a later use of a higher index, or a New after a Del; "
        "distinct = (backend, action-kind sequence with indices).")
ASSUMPTIONS = [
    "tags are coherent amplitudes |alpha| <= 0.7, read back from means (gaussian, bosonic) or from the Fock tensor "
    "(cutoff 7-8, tolerance 2e-3 for truncation)",
    "backend-level illegal accesses must raise ValueError or IndexError (RegRefError is an IndexError)",
]
REQUIRED_MONITORS = ["segment:live-set", "segment:tags", "illegal:program-level", "illegal:backend-level", "foreign-successor"]


class Model:
    def __init__(self, n0, rng):
        self.alpha = {}
        self.next = 0
        self.deleted = []
        self.rng = rng
        for _ in range(n0):
            self.alloc()

    def alloc(self):
        i = self.next
        self.next += 1
        self.alpha[i] = 0j
        return i

    def live(self):
        return sorted(self.alpha)


def gen_history(rng, backend, maxlive=4):
    n0 = int(rng.integers(1, min(4, maxlive + 1)))
    nseg = int(rng.integers(1, 6))
    live = list(range(n0))
    nxt = n0
    deleted = []
    segs = []
    tagged = set()
    for s in range(nseg):
        acts = []
        # tag untagged modes first
        for i in live:
            if i not in tagged:
                acts.append({"a": "tag", "i": i, "r": float(rng.uniform(0.2, 0.45)), "phi": float(rng.uniform(0, 6.28))})
                tagged.add(i)
        for _ in range(int(rng.integers(1, 9))):
            r = rng.random()
            if r < 0.15 and len(live) < maxlive:
                k = int(rng.integers(1, min(3, maxlive - len(live)) + 1))
                new = list(range(nxt, nxt + k))
                nxt += k
                acts.append({"a": "new", "k": k, "idx": new})
                live += new
                for i in new:
                    acts.append({"a": "tag", "i": i, "r": float(rng.uniform(0.2, 0.45)), "phi": float(rng.uniform(0, 6.28))})
                    tagged.add(i)
            elif r < 0.33 and len(live) > 1:
                k = 1 if rng.random() < 0.7 else min(2, len(live) - 1)
                pos = str(rng.choice(["first", "last", "middle"]))
                if pos == "first":
                    d = live[:k]
                elif pos == "last":
                    d = live[-k:]
                else:
                    j = int(rng.integers(len(live) - k + 1))
                    d = live[j:j + k]
                acts.append({"a": "del", "idx": list(d)})
                for i in d:
                    live.remove(i)
                    deleted.append(i)
            elif r < 0.5:
                acts.append({"a": "D", "i": int(rng.choice(live)), "r": float(rng.uniform(0.05, 0.15)), "phi": float(rng.uniform(0, 6.28))})
            elif r < 0.65:
                acts.append({"a": "R", "i": int(rng.choice(live)), "th": float(rng.uniform(-3, 3))})
            elif r < 0.8 and len(live) >= 2:
                a, b = (int(x) for x in rng.choice(live, 2, replace=False))
                acts.append({"a": "BS", "i": a, "j": b, "th": float(rng.uniform(0.2, 1.3)), "phi": float(rng.uniform(0, 6.28))})
            elif r < 0.88:
                acts.append({"a": "M", "i": int(rng.choice(live)), "phi": float(rng.choice([0.0, 0.7, 1.5707963]))})
            elif deleted or True:
                # illegal access at program level
                kind = str(rng.choice(["deleted", "unknown", "duplicate"])) if deleted else str(rng.choice(["unknown", "duplicate"]))
                acts.append({"a": "illegal", "kind": kind, "i": int(rng.choice(deleted)) if kind == "deleted" else nxt + 2})
        segs.append(acts)
    return {"n0": n0, "segments": segs, "backend": backend}


def nontrivial(hist):
    seen_del = False
    maxdel = -1
    for seg in hist["segments"]:
        for a in seg:
            if a["a"] == "del":
                seen_del = True
                maxdel = max(maxdel, min(a["idx"]))
            elif a["a"] == "new" and seen_del:
                return True
            elif seen_del and a["a"] in ("D", "R", "M", "tag") and a["i"] > maxdel >= 0:
                return True
            elif seen_del and a["a"] == "BS" and max(a["i"], a["j"]) > maxdel >= 0:
                return True
    return False


def read_tags(simrun, eng, res):
    snap = simrun.Snap(eng.backend)
    if snap.kind == "fock":
        mu, V = snap.fock_moments()
    else:
        mu = np.real(snap.mu)
    n = snap.n
    return [(mu[k] + 1j * mu[n + k]) / 2 for k in range(n)], snap


def raw_state(backend):
    c = backend.circuit
    if backend.short_name == "gaussian":
        return [c.nmat.copy(), c.mmat.copy(), c.mean.copy(), list(c.active)]
    if backend.short_name == "bosonic":
        return [np.array(c.weights).copy(), np.array(c.means).copy(), np.array(c.covs).copy(), list(c.active)]
    return [np.array(c._state).copy(), bool(c._pure), list(backend._modemap._map)]


def same_raw(a, b):
    for x, y in zip(a, b):
        if isinstance(x, np.ndarray):
            if x.shape != y.shape or not np.array_equal(x, y):
                return False
        elif x != y:
            return False
    return True


def run_case(hist, rep, env):
    simrun, sf, ops, pu = env
    backend = hist["backend"]
    conf = hist.get("conf", {})
    V = lambda locus, kind, what, detail=None: rep.violation(locus, kind, what, hist, detail)
    rng = np.random.default_rng(hist.get("seed", 0))
    np.random.seed(hist.get("seed", 0) % (2 ** 31))
    eng = sf.Engine(backend, backend_options=dict(conf))
    alpha = {i: 0j for i in range(hist["n0"])}
    deleted = []
    nxt = hist["n0"]
    prev = None
    kinds = []
    for si, seg in enumerate(hist["segments"]):
        parent = prev if prev is not None else hist["n0"]
        prog = sf.Program(parent)
        try:
            with prog.context as q:
                for a in seg:
                    kinds.append(a["a"])
                    if a["a"] == "new":
                        refs = ops.New(a["k"])
                        got = [r.ind for r in refs]
                        rep.monitor("alloc:index")
                        if got != a["idx"]:
                            V("Program.New", "index-reused-or-skipped", "New(%d) returned indices %s, the model expects %s "
                              "(indices are never reused)" % (a["k"], got, a["idx"]))
                            return
                        for i in a["idx"]:
                            alpha[i] = 0j
                        nxt = max(nxt, max(a["idx"]) + 1)
                    elif a["a"] == "del":
                        ops.Del | tuple(prog.reg_refs[i] for i in a["idx"])
                        for i in a["idx"]:
                            alpha.pop(i)
                            deleted.append(i)
                    elif a["a"] in ("tag", "D"):
                        ops.Dgate(a["r"], a["phi"]) | prog.reg_refs[a["i"]]
                        alpha[a["i"]] += a["r"] * np.exp(1j * a["phi"])
                    elif a["a"] == "R":
                        ops.Rgate(a["th"]) | prog.reg_refs[a["i"]]
                        alpha[a["i"]] *= np.exp(1j * a["th"])
                    elif a["a"] == "BS":
                        ops.BSgate(a["th"], a["phi"]) | (prog.reg_refs[a["i"]], prog.reg_refs[a["j"]])
                        c, s = np.cos(a["th"]), np.sin(a["th"])
                        x, y = alpha[a["i"]], alpha[a["j"]]
                        alpha[a["i"]] = c * x - np.exp(-1j * a["phi"]) * s * y
                        alpha[a["j"]] = np.exp(1j * a["phi"]) * s * x + c * y
                    elif a["a"] == "M":
                        ops.MeasureHomodyne(a["phi"]) | prog.reg_refs[a["i"]]
                        alpha[a["i"]] = 0j
                    elif a["a"] == "illegal":
                        rep.monitor("illegal:program-level")
                        ncmd = len(prog.circuit)
                        try:
                            if a["kind"] == "deleted":
                                ops.Rgate(0.3) | prog.reg_refs[a["i"]]
                            elif a["kind"] == "unknown":
                                ops.Rgate(0.3) | a["i"]
                            else:
                                live = sorted(alpha)
                                ops.BSgate(0.3, 0.1) | (prog.reg_refs[live[0]], prog.reg_refs[live[0]])
                            V("Program.append", "illegal-access-accepted", "an operation on a %s subsystem (%s) was accepted "
                              "without RegRefError" % (a["kind"], a["i"]))
                            return
                        except pu.RegRefError:
                            rep.observe("illegal.program:%s:RegRefError" % a["kind"])
                        except Exception as e:
                            V("Program.append", "illegal-access-wrong-error", "%s access raised %s instead of RegRefError" % (
                                a["kind"], type(e).__name__))
                            return
                        if len(prog.circuit) != ncmd:
                            V("Program.append", "illegal-access-appended", "the rejected command was appended to the circuit")
                            return
        except Exception as e:
            V("Program", "exception:" + type(e).__name__, "building segment %d raised %s: %s" % (si, type(e).__name__, str(e)[:150]))
            return
        try:
            res = eng.run(prog)
        except Exception as e:
            kind = "exception:" + type(e).__name__
            locus = backend + ".run"
            if backend == "bosonic" and any(a["a"] == "new" for a in seg):
                # mechanism: BosonicBackend.init_circuit cannot handle New() (several exception types)
                locus, kind = "bosonic.New", "crash-on-New"
            elif backend == "bosonic" and si > 0:
                # mechanism: the bosonic backend re-initialises its circuit from every program segment
                kind = "crash:multi-segment"
            V(locus, kind, "running segment %d on %s raised %s: %s" % (si, backend, type(e).__name__, str(e)[:150]),
              {"segment": si})
            return
        prev = prog
        live = sorted(alpha)
        # ---- live set / labels ---------------------------------------------------------------------------
        rep.monitor("segment:live-set")
        reg = [r.ind for r in prog.register]
        bm = [int(x) for x in eng.backend.get_modes()]
        st = res.state
        detail = {"segment": si, "model": live, "register": reg, "backend": bm}
        multi = si > 0
        bos_multi = backend == "bosonic" and multi
        if reg != live:
            V("Program.register", "live-set", "Program.register = %s, model = %s after segment %d" % (reg, live, si), detail)
            return
        if bm != live:
            V(backend + ".get_modes", "live-set:multi-segment" if bos_multi else "live-set",
              "backend.get_modes() = %s, model = %s after segment %d" % (bm, live, si), detail)
            return
        if st.num_modes != len(live):
            V(backend + ".state", "num-modes:multi-segment" if bos_multi else "num-modes", "Result.state.num_modes = %d, model has %d live modes" % (st.num_modes, len(live)), detail)
            return
        names = getattr(st, "mode_names", None)
        if names is not None:
            rep.monitor("segment:labels")
            exp = ["q[%d]" % i for i in live]
            got = [names[k] for k in sorted(names)] if isinstance(names, dict) else list(names)
            if got != exp:
                V(backend + ".state", "mode-names", "state.mode_names = %s, expected %s" % (got, exp), detail)
                return
        # ---- tags ----------------------------------------------------------------------------------------
        rep.monitor("segment:tags")
        tags, snap = read_tags(simrun, eng, res)
        tol = 5e-3 if backend == "fock" else 1e-9
        for pos, i in enumerate(live):
            if abs(tags[pos] - alpha[i]) > tol * (1 + abs(alpha[i])):
                kind = "wrong-data-under-label"
                if bos_multi:
                    kind = "wrong-data-under-label:multi-segment"
                V(backend + ".state", kind, "after segment %d position %d (q[%d]) carries amplitude %s, the model's tag for "
                  "that index is %s (all read: %s, model: %s)" % (si, pos, i, np.round(tags[pos], 4), np.round(alpha[i], 4),
                                                                  np.round(tags, 3).tolist(),
                                                                  [complex(np.round(alpha[j], 3)) for j in live]), detail)
                return
        # ---- illegal accesses at the backend boundary -----------------------------------------------------
        b = eng.backend
        bad = ([deleted[-1]] if deleted else []) + [nxt + 3]
        for d in bad:
            calls = [("rotation", lambda: b.rotation(0.3, d)), ("displacement", lambda: b.displacement(0.1, 0.2, d)),
                     ("loss", lambda: b.loss(0.5, d)), ("prepare_coherent_state", lambda: b.prepare_coherent_state(0.1, 0.2, d)),
                     ("squeeze", lambda: b.squeeze(0.1, 0.2, d)), ("del_mode", lambda: b.del_mode([d]))]
            if live:
                calls.append(("beamsplitter", lambda: b.beamsplitter(0.3, 0.1, live[0], d)))
            for nm, f in calls:
                rep.monitor("illegal:backend-level")
                before = raw_state(b)
                which = "deleted" if d in deleted else "unknown"
                try:
                    f()
                    V("%s.%s" % (backend, nm), "illegal-access-accepted:" + which,
                      "backend.%s on %s mode %d did not raise" % (nm, which, d), detail)
                    return
                except (ValueError, IndexError):
                    rep.observe("illegal.backend:%s:%s" % (which, nm))
                except Exception as e:
                    V("%s.%s" % (backend, nm), "illegal-access-wrong-error:" + which, "backend.%s on %s mode %d raised %s: %s" % (
                        nm, which, d, type(e).__name__, str(e)[:100]), detail)
                    return
                if not same_raw(before, raw_state(b)):
                    V("%s.%s" % (backend, nm), "illegal-access-changed-state:" + which,
                      "backend.%s on %s mode %d raised but modified the simulator state" % (nm, which, d), detail)
                    return
        # ---- a successor written for a different branch of the history -----------------------------------
        if hist.get("foreign", True) and not foreign_successor(hist, rep, env, eng, prog, parent, si, rng, V):
            return
    rep.seen("history-shapes", "%s:%s" % (backend, "".join(k[0] for k in kinds))[:80])


def foreign_successor(hist, rep, env, eng, prog, parent, si, rng, V):
    """After segment `prog` ran, hand the engine a continuation that was written for a *sibling* of prog (same parent,
    other subsystems deleted / created).  The engine must refuse it and leave the simulator untouched; if it accepts it,
    the continuation's register and the simulator's live modes must agree (that is the property).  Returns False when
    the history cannot be continued."""
    simrun, sf, ops, pu = env
    backend = hist["backend"]
    if rng.random() > 0.5:
        return True
    sib = sf.Program(parent)
    target = sorted(r.ind for r in prog.register)
    nidx_target = len(prog.reg_refs)
    try:
        with sib.context:
            live0 = [r.ind for r in sib.register]
            nnew = nidx_target - len(sib.reg_refs)
            if nnew > 0:
                ops.New(nnew)
            allidx = [r.ind for r in sib.register]
            ndel = len(allidx) - len(target)
            want_same_sizes = rng.random() < 0.7
            cand = None
            if want_same_sizes and 0 < ndel < len(allidx):
                for _ in range(8):
                    d = sorted(int(x) for x in rng.choice(allidx, ndel, replace=False))
                    if sorted(set(allidx) - set(d)) != target:
                        cand = d
                        break
            if cand is None:
                # different number of live modes: delete one more (or one fewer) than prog did
                k = ndel + 1 if len(allidx) - ndel >= 2 else ndel - 1
                if k < 0 or k >= len(allidx):
                    return True
                cand = sorted(int(x) for x in rng.choice(allidx, k, replace=False))
            if cand:
                ops.Del | tuple(sib.reg_refs[i] for i in cand)
        sib_live = [r.ind for r in sib.register]
        if sorted(sib_live) == target and len(sib.reg_refs) == nidx_target:
            return True
        cont = sf.Program(sib)
        if sib_live:
            with cont.context:
                ops.Rgate(0.0) | cont.reg_refs[sib_live[0]]
    except Exception as e:
        rep.error("foreign_successor:build", e)
        return True
    same_sizes = len(sib.reg_refs) == nidx_target and len(sib_live) == len(target)
    rep.monitor("foreign-successor")
    rep.observe("foreign-successor:%s" % ("same-sizes" if same_sizes else "different-sizes"))
    before = raw_state(eng.backend)
    try:
        eng.run(cont)
    except Exception as e:
        rep.observe("foreign-successor:refused:" + type(e).__name__)
        if not same_raw(before, raw_state(eng.backend)):
            V("Engine.run", "foreign-successor-changed-state", "a program written for another branch (live modes %s, engine holds %s) "
              "was refused with %s but the simulator state changed" % (sib_live, target, type(e).__name__), {"segment": si})
            return False
        return True
    reg = [r.ind for r in cont.register]
    bm = [int(x) for x in eng.backend.get_modes()]
    if reg != bm:
        V("Engine.run", "foreign-successor-accepted" + (":same-sizes" if same_sizes else ""),
          "after segment %d the engine holds live modes %s; a continuation written for a sibling branch with live modes %s "
          "(%d subsystem indices vs %d) was accepted: Program.register = %s, backend.get_modes() = %s" % (
              si, target, sib_live, len(sib.reg_refs), nidx_target, reg, bm), {"segment": si})
    else:
        rep.observe("foreign-successor:accepted-and-consistent")
    return False


def load():
    setup_paths()
    import strawberryfields as sf
    from strawberryfields import ops
    import strawberryfields.program_utils as pu
    from .. import simrun

    return simrun, sf, ops, pu


def plan(tier, seed, scale=1.0):
    n = int((50 if tier == "quick" else 900) * scale)
    return [{"n": n, "timeout": 3000} for _ in range(16)]


def run_shard(shard, rep):
    env = load()
    rng = np.random.default_rng([shard["seed"], shard["id"], 8])
    confs = [("gaussian", {}), ("bosonic", {}), ("fock", {"cutoff_dim": 6, "pure": True}),
             ("fock", {"cutoff_dim": 6, "pure": False}), ("gaussian", {})]
    for i in range(shard["n"]):
        backend, conf = confs[i % len(confs)]
        hist = gen_history(rng, backend, maxlive=3 if (backend == "fock" and not conf.get("pure", True)) else 4)
        hist["conf"] = conf
        hist["seed"] = int(rng.integers(2 ** 31))
        try:
            run_case(hist, rep, env)
        except Exception as e:
            rep.error("run_case", e)
        rep.case([backend, conf.get("pure"), [[(a["a"], a.get("i"), a.get("idx")) for a in s] for s in hist["segments"]]],
                 nontrivial(hist), sample=hist if rep.evaluations % 61 == 2 else None)


def replay(case, rep):
    run_case(case, rep, load())
