"""C20 — trainable-GBS and chemistry numerics are self-consistent.

The real functions of apps.train / apps.qchem / apps.similarity are called on generated inputs and every
returned number is compared, at the call boundary, with an oracle that shares no code with them:

* gradients            central finite differences of the *reported* cost (same object, same cached samples);
* probabilities        vf.refphot (brute-force loop hafnian; determinant/inclusion-exclusion click formula);
* normalisation        conservation monitor: the probabilities of all patterns with N photons must add up to the
                       total-photon-number distribution obtained from the generating function (no hafnians), click
                       probabilities over all 2^n patterns must add up to one;
* moments              RefGauss state built from the eigen-decomposition of A (squeezers + interferometer);
* chemistry            Franck-Condon integrals by direct integration of oscillator wavefunctions, the Duschinsky
                       relation q_f = U q_i + d evaluated on random geometries with the harness's own constants,
                       Bose-Einstein occupations, photon-number conservation observed on returned samples.
"""
import itertools
import math

import numpy as np

from ..common import setup_paths, rnd
from ..instrument import CommandTap
from .. import refgauss as rg
from .. import refphot as rp

PROPERTY = "C20"
RULE = ("seeded inputs: real symmetric matrices of size 2-5 (Erdos-Renyi adjacency, complete, weighted with negative "
        "entries, rank-deficient, with an isolated node), n_mean 0.2-3, Exp / ExpFeatures embeddings, parameter "
        "vectors (non-negative, and signed when A(theta) stays a valid GBS matrix), data sets of 1-6 samples; graphs "
        "of 3-6 nodes, orbits/events of 1-5 photons, loss in {0, (0,1), 1}; molecular parameters for 1-4 modes "
        "(frequencies 100-4000 cm^-1, rotations by any angle, displacements up to 2, T in {0, 50-1500 K}), times "
        "0-200 fs, local-mode transformations (orthogonal, permutation, identity). non-trivial = the oracle value is "
        "not 0/1/identity (e.g. gradient norm > 1e-6, probability in (1e-12, 1), squeezing != 0); distinct = "
        "(function family, rounded inputs).")
ASSUMPTIONS = [
    "A is real symmetric (documented: adjacency matrix); A(theta) has spectral norm < 1 and its non-zero entries are >= 1e-6 "
    "(The Walrus, third party, treats entries below 1e-8 as zero)",
    "threshold-mode gradients are approximate by design and are observed, not judged",
    "NumPy/SciPy linear algebra trusted; physical constants (h, c, k, m_u) are written out in the harness (CODATA 2018)",
    "Franck-Condon oracle: grid integration for 1 and 2 modes; larger systems are compared at the level of the "
    "Gaussian state implied by x' = J x + delta",
    "photon-number-resolved samples with more than 5 photons (the default per-mode truncation of The Walrus' chain-rule "
    "sampler, a third-party approximation) are not judged for conservation / parity",
    "sampling functions are checked for conservation laws and shapes only (no distributional verdict here; "
    "distributions of samplers are C06's subject)",
]
REQUIRED_MONITORS = ["embed.jacobian", "vgbs.A", "A_to_cov", "vgbs.moments", "prob_sample.pnr", "prob_sample.threshold",
                     "normalisation.pnr", "normalisation.threshold", "KL.grad.pnr", "Stochastic.grad.pnr",
                     "Stochastic.reparametrisation", "vgbs.samples", "prob_orbit_exact", "prob_event_exact", "feature_vectors(exact)",
                     "vgbs.in-place-parameter-update",
                     "prob_mc.bounds", "gbs_params", "duschinsky", "franck_condon", "vibronic.state",
                     "TimeEvolution", "dynamics.conservation", "dynamics.premeasure-state", "vibronic.sample-state",
                     "marginals"]

WALRUS_CUTOFF = 5  # default per-mode truncation of thewalrus.samples.hafnian_sample_state

# CODATA 2018 (exact SI values where defined)
H = 6.62607015e-34
C = 299792458.0
KB = 1.380649e-23
MU = 1.66053906660e-27


# ---------------------------------------------------------------------------------------------------
# references
# ---------------------------------------------------------------------------------------------------

def ref_state_from_A(A):
    """Pure Gaussian state whose A-matrix is the real symmetric A (|psi> ~ exp(a^dag A a^dag / 2)|0>)."""
    lam, O = np.linalg.eigh(A)
    n = len(A)
    g = rg.GState(n)
    for i, l in enumerate(lam):
        if abs(l) > 0:
            S, d = rg.gate_sd("Sgate", [float(np.arctanh(abs(l))), np.pi if l > 0 else 0.0])
            g.apply_sd(S, d, [i])
    g.apply_sd(rg.interferometer_S(O), np.zeros(2 * n), list(range(n)))
    return g


def uniform_phase_dev(V, Vref):
    """Distance between two zero-mean covariances modulo one common phase rotation of all modes."""
    n = len(V) // 2
    zero = np.zeros(2 * n)
    _, s1 = rp.complex_cov(zero, V)
    _, s2 = rp.complex_cov(zero, Vref)
    N1, M1 = s1[:n, :n], s1[:n, n:]
    N2, M2 = s2[:n, :n], s2[:n, n:]
    dN = np.max(np.abs(N1 - N2))
    k = np.unravel_index(np.argmax(np.abs(M2)), M2.shape)
    if abs(M2[k]) < 1e-12:
        return max(dN, np.max(np.abs(M1)))
    ph = M1[k] / M2[k]
    if abs(abs(ph) - 1) > 1e-6:
        return max(dN, np.max(np.abs(M1 - M2)))
    return max(dN, np.max(np.abs(M1 - ph * M2)))


def scale_for_mean_photons(A, n_mean):
    """x such that the pure GBS state of x*A has n_mean photons in total (bisection, harness-side)."""
    lam = np.abs(np.linalg.eigvalsh(A))
    top = 1.0 / np.max(lam)

    def f(x):
        t = (x * lam) ** 2
        return np.sum(t / (1 - t)) - n_mean

    lo, hi = 0.0, top * (1 - 1e-14)
    for _ in range(200):
        mid = (lo + hi) / 2
        if f(mid) > 0:
            hi = mid
        else:
            lo = mid
    return (lo + hi) / 2


def lossy(g, loss):
    T = 1.0 - loss
    V = T * g.V + (1 - T) * np.eye(len(g.V))
    mu = np.sqrt(T) * g.mu
    return mu, V


# ---------------------------------------------------------------------------------------------------
# generators
# ---------------------------------------------------------------------------------------------------

def gen_A(rng, n):
    c = str(rng.choice(["er", "er", "complete", "weighted", "weighted", "rank1", "isolated", "negative"]))
    if c in ("er", "isolated"):
        while True:
            A = (rng.random((n, n)) < 0.65).astype(float)
            A = np.triu(A, 1)
            A = A + A.T
            if c == "isolated" and n > 2:
                A[0, :] = 0
                A[:, 0] = 0
            if A.sum() > 0:
                return c, A
    if c == "complete":
        return c, np.ones((n, n)) - np.eye(n)
    if c == "weighted":
        A = rng.uniform(0, 1, (n, n))
        return c, (A + A.T) / 2
    if c == "negative":
        A = rng.normal(size=(n, n))
        return c, (A + A.T) / 2
    v = rng.uniform(0.3, 1, n)
    return c, np.outer(v, v)


def gen_vgbs_case(rng, thr=None):
    n = int(rng.choice([2, 3, 3, 4, 4, 5]))
    cls, A = gen_A(rng, n)
    draw = bool(rng.random() < 0.4)
    thr = draw if thr is None else thr
    support = int(np.sum(np.any(A != 0, axis=1)))  # modes that can hold photons at all
    n_mean = float(rng.uniform(0.2, min(3.0, 0.8 * support) if thr else 3.0))
    if rng.random() < 0.5:
        emb = {"type": "Exp"}
        d = n
        F = np.eye(n)
    else:
        d = int(rng.integers(1, n + 1))
        F = rng.uniform(0, 1.5, (n, d)) * (rng.random((n, d)) < 0.8)
        if rng.random() < 0.3:
            F = F * rng.choice([-1, 1], (n, d))
        emb = {"type": "ExpFeatures", "features": F.tolist()}
    theta = rng.uniform(0, 0.8, d)
    if rng.random() < 0.3:
        theta = theta * rng.choice([-0.2, 1], d)
    if rng.random() < 0.1:
        theta = np.zeros(d)
    elif rng.random() < 0.2:
        theta = rng.uniform(2.5, 6.5, d)  # strongly damped model: sample probabilities down to ~1e-15
    return {"kind": "vgbs", "A": A.tolist(), "cls": cls, "threshold": thr, "n_mean": n_mean, "embedding": emb,
            "theta": theta.tolist(), "n_data": int(rng.integers(1, 7)), "hseed": int(rng.integers(2 ** 31)),
            "sample_calls": bool(rng.random() < 0.25)}


def gen_graph_case(rng):
    import networkx as nx

    n = int(rng.choice([3, 4, 4, 5, 5, 6]))
    c = str(rng.choice(["er", "er", "complete", "path", "star", "weighted"]))
    if c == "er":
        while True:
            g = nx.gnp_random_graph(n, float(rng.uniform(0.4, 0.9)), seed=int(rng.integers(2 ** 31)))
            if g.number_of_edges() > 0:
                break
    elif c == "complete":
        g = nx.complete_graph(n)
    elif c == "path":
        g = nx.path_graph(n)
    elif c == "star":
        g = nx.star_graph(n - 1)
    else:
        g = nx.complete_graph(n)
        for a, b in g.edges:
            g[a][b]["weight"] = float(rng.uniform(0.2, 1.5))
    A = nx.to_numpy_array(g)
    photons = int(rng.integers(1, 5 if n <= 5 else 4))
    parts = [p for p in _partitions(photons) if len(p) <= n]
    orbit = parts[int(rng.integers(len(parts)))]
    loss = float(rng.choice([0.0, 0.0, float(rng.uniform(0.05, 0.9)), 1.0], p=[0.3, 0.2, 0.45, 0.05]))
    return {"kind": "similarity", "A": A.tolist(), "gcls": c, "orbit": orbit, "photons": photons,
            "maxc": int(rng.integers(1, photons + 1)), "n_mean": float(rng.uniform(0.3, 4.0)), "loss": loss,
            "mc_samples": int(rng.integers(1, 6)), "mc_seed": int(rng.integers(2 ** 31))}


def _partitions(n, maxpart=None):
    if maxpart is None:
        maxpart = n
    if n == 0:
        yield []
        return
    for k in range(min(n, maxpart), 0, -1):
        for rest in _partitions(n - k, k):
            yield [k] + rest


def rand_orth(rng, n):
    c = str(rng.choice(["haar", "haar", "small", "perm", "identity"]))
    if c == "identity":
        return np.eye(n)
    if c == "perm":
        return np.eye(n)[rng.permutation(n)]
    Q, R = np.linalg.qr(rng.normal(size=(n, n)))
    Q = Q * np.sign(np.diag(R))
    if c == "small":
        from scipy.linalg import expm, logm

        G = rng.normal(size=(n, n)) * 0.15
        return expm(G - G.T)
    return Q


def gen_vibronic_case(rng):
    n = int(rng.choice([1, 1, 2, 2, 2, 3, 4]))
    w = rng.uniform(100, 4000, n)
    r = rng.random()
    if r < 0.15:
        wp = w.copy()
    elif r < 0.55:
        wp = w * rng.uniform(0.8, 1.25, n)
    else:
        wp = rng.uniform(100, 4000, n)
    Ud = rand_orth(rng, n)
    delta = rng.uniform(-2, 2, n) * (rng.random(n) < 0.85)
    T = float(rng.choice([0.0, 0.0, float(rng.uniform(50, 1500))]))
    return {"kind": "vibronic", "w": w.tolist(), "wp": wp.tolist(), "Ud": Ud.tolist(), "delta": delta.tolist(), "T": T,
            "n_samples": int(rng.integers(1, 4)), "loss": float(rng.choice([0.0, 0.0, float(rng.uniform(0.1, 0.9))]))}


def gen_duschinsky_case(rng):
    natoms = int(rng.integers(2, 5))
    nm = int(rng.integers(1, 3 * natoms - 4)) if natoms > 2 else 1
    Qi, _ = np.linalg.qr(rng.normal(size=(3 * natoms, 3 * natoms)))
    if rng.random() < 0.4:
        Qf = Qi.copy()
    else:
        Qf, _ = np.linalg.qr(Qi + 0.3 * rng.normal(size=(3 * natoms, 3 * natoms)))
    m_at = rng.choice([1.0078, 12.0, 14.003, 15.995, 11.0093, 32.06], natoms)
    return {"kind": "duschinsky", "Li": Qi[:, :nm].tolist(), "Lf": Qf[:, :nm].tolist(),
            "ri": rng.normal(size=3 * natoms).tolist(), "rf": rng.normal(size=3 * natoms).tolist(),
            "wf": rng.uniform(100, 4000, nm).tolist(), "m": np.repeat(m_at, 3).tolist(),
            "r": rng.normal(size=3 * natoms).tolist()}


def gen_dynamics_case(rng):
    n = int(rng.choice([1, 2, 2, 3, 3]))
    w = rng.uniform(100, 4000, n)
    t = float(rng.choice([0.0, float(rng.uniform(0, 200)), float(rng.uniform(0, 5))]))
    Ul = rand_orth(rng, n)
    fock_in = [int(x) for x in rng.choice([0, 0, 1, 1, 2], n)]
    if sum(fock_in) == 0:
        fock_in[0] = 1
    return {"kind": "dynamics", "w": w.tolist(), "t": t, "Ul": Ul.tolist(), "fock_in": fock_in,
            "r": [[float(rng.uniform(0, 0.8)), float(rng.uniform(0, 2 * np.pi))] for _ in range(n)],
            "alpha": [[float(rng.uniform(0, 1.2)), float(rng.uniform(0, 2 * np.pi))] for _ in range(n)],
            "loss": float(rng.choice([0.0, 0.0, float(rng.uniform(0.1, 0.9)), 1.0])),
            "n_samples": int(rng.integers(1, 4)), "state_seed": int(rng.integers(2 ** 31))}


def gen_marginals_case(rng):
    n = int(rng.integers(1, 4))
    return {"kind": "marginals", "n": n, "state_seed": int(rng.integers(2 ** 31)), "n_max": int(rng.integers(1, 7)),
            "hbar": float(rng.choice([2.0, 2.0, 1.0, 0.5, 1.7])), "mixed": bool(rng.random() < 0.5),
            "displaced": bool(rng.random() < 0.6)}


def gen_case(rng):
    r = rng.random()
    if r < 0.04:
        n = int(rng.integers(1, 6))
        d = int(rng.integers(1, 5))
        return {"kind": "embed", "features": rng.normal(size=(n, d)).tolist(), "theta": rng.normal(size=d).tolist(),
                "exp": bool(rng.random() < 0.3)}
    if r < 0.40:
        return gen_vgbs_case(rng)
    if r < 0.55:
        return gen_graph_case(rng)
    if r < 0.75:
        return gen_vibronic_case(rng)
    if r < 0.82:
        return gen_duschinsky_case(rng)
    if r < 0.94:
        return gen_dynamics_case(rng)
    return gen_marginals_case(rng)


# ---------------------------------------------------------------------------------------------------
# case runners
# ---------------------------------------------------------------------------------------------------

def fd_grad(f, x, h=1e-5):
    x = np.asarray(x, dtype=float)
    out = np.zeros(len(x))
    for i in range(len(x)):
        e = np.zeros(len(x))
        e[i] = h
        out[i] = (f(x + e) - f(x - e)) / (2 * h)
    return out


def run_embed(case, rep, V):
    from strawberryfields.apps.train import embed

    F = np.array(case["features"])
    th = np.array(case["theta"])
    if case["exp"]:
        e = embed.Exp(len(th))
        F = np.eye(len(th))
    else:
        e = embed.ExpFeatures(F)
    rep.monitor("embed.jacobian")
    rep.case(["embed", rnd(F, 6), rnd(th, 6)], bool(np.any(F != 0)))
    w = e(th)
    wref = np.exp(-F @ th)
    if np.max(np.abs(w - wref)) > 1e-12 * (1 + np.max(np.abs(wref))):
        V("embed.weights", "definition", "weights differ from exp(-F theta) by %.3g" % np.max(np.abs(w - wref)))
    jac = e.jacobian(th)
    fd = np.array([fd_grad(lambda x, k=k: e.weights(x)[k], th) for k in range(len(F))])
    dev = np.max(np.abs(jac - fd))
    rep.dev("embed.jacobian-vs-fd", dev, 1e-6 * (1 + np.max(np.abs(fd))))
    if dev > 1e-6 * (1 + np.max(np.abs(fd))):
        V("embed.jacobian", "not-derivative-of-weights", "jacobian differs from finite differences by %.3g" % dev)


def run_vgbs(case, rep, V):
    from strawberryfields.apps.train import param, cost, embed
    import strawberryfields as sf

    A = np.array(case["A"])
    n = len(A)
    thr = case["threshold"]
    if case["embedding"]["type"] == "Exp":
        emb = embed.Exp(n)
        F = np.eye(n)
    else:
        F = np.array(case["embedding"]["features"])
        emb = embed.ExpFeatures(F)
    theta = np.array(case["theta"])
    rng = np.random.default_rng(case["hseed"])

    vg0 = param.VGBS(A, case["n_mean"], emb, thr)
    A0 = vg0.A_init
    # domain: A(theta) must remain a GBS matrix
    w_ref = np.exp(-F @ theta)
    Ath_ref = np.diag(np.sqrt(w_ref)) @ A0 @ np.diag(np.sqrt(w_ref))
    if np.max(np.abs(np.linalg.eigvalsh(Ath_ref))) > 0.97:
        theta = np.abs(theta)
        w_ref = np.exp(-F @ theta)
        Ath_ref = np.diag(np.sqrt(w_ref)) @ A0 @ np.diag(np.sqrt(w_ref))
        if np.max(np.abs(np.linalg.eigvalsh(Ath_ref))) > 0.97:
            rep.skip("A(theta) outside the GBS domain")
            return
    # The Walrus treats matrix entries below 1e-8 as exact zeros (np.allclose defaults in its hafnian front end), so
    # a model whose non-zero couplings are that small is outside the numerically meaningful domain: back off
    for _ in range(60):
        nz = np.abs(Ath_ref[np.abs(A0) > 0])
        if len(nz) == 0 or nz.min() >= 1e-6:
            break
        theta = theta * 0.85
        w_ref = np.exp(-F @ theta)
        Ath_ref = np.diag(np.sqrt(w_ref)) @ A0 @ np.diag(np.sqrt(w_ref))
    mode = "threshold" if thr else "pnr"

    # ---- rescaling: the state of A_init has the requested mean
    g0 = ref_state_from_A(A0)
    ref_mean0 = (sum(1 - rp.vacuum_prob(g0.mu, g0.V, [k]) for k in range(n)) if thr
                 else float(np.sum(rp.mean_photons(g0.mu, g0.V))))
    rep.monitor("vgbs.A")
    rep.dev("rescale:n_mean", abs(ref_mean0 - case["n_mean"]), 1e-6)
    if abs(ref_mean0 - case["n_mean"]) > 1e-6 * (1 + case["n_mean"]):
        V("rescale_adjacency", "mean-not-reached:" + mode,
          "state of the rescaled matrix has mean %.8g, requested %.8g" % (ref_mean0, case["n_mean"]))
    Ath = vg0.A(theta)
    if np.max(np.abs(Ath - Ath_ref)) > 1e-12:
        V("VGBS.A", "definition", "A(theta) differs from W A_init W by %.3g" % np.max(np.abs(Ath - Ath_ref)))
    Wm = vg0.W(theta)
    if np.max(np.abs(Wm - np.diag(np.sqrt(w_ref)))) > 1e-12:
        V("VGBS.W", "definition", "W(theta) is not diag(sqrt(w))")

    g = ref_state_from_A(Ath_ref)
    nontrivial = bool(np.max(np.abs(Ath_ref)) > 1e-3)
    rep.case(["vgbs", mode, rnd(A0, 5), rnd(theta, 5), rnd(F, 4)], nontrivial)

    # ---- covariance
    rep.monitor("A_to_cov")
    cov = param.A_to_cov(Ath)
    if np.iscomplexobj(cov) and np.max(np.abs(np.imag(cov))) > 1e-12:
        V("A_to_cov", "complex-covariance", "covariance has imaginary part for a real matrix")
    cov = np.real(cov) * (2.0 / sf.hbar)
    dev = uniform_phase_dev(cov, g.V)
    rep.dev("A_to_cov", dev, 1e-8 * (1 + np.max(np.abs(g.V))))
    if dev > 1e-8 * (1 + np.max(np.abs(g.V))):
        V("A_to_cov", "not-the-state-of-A", "covariance differs from the state exp(a'Aa'/2)|0> (modulo a common phase) "
          "by %.3g" % dev)

    # ---- moments
    rep.monitor("vgbs.moments")
    mp = vg0.mean_photons_by_mode(theta)
    mp_ref = rp.mean_photons(g.mu, g.V)
    if np.max(np.abs(mp - mp_ref)) > 1e-8 * (1 + np.max(mp_ref)):
        V("VGBS.mean_photons_by_mode", "not-the-state-mean", "differs by %.3g" % np.max(np.abs(mp - mp_ref)))
    mc = vg0.mean_clicks_by_mode(theta)
    mc_ref = np.array([1 - rp.vacuum_prob(g.mu, g.V, [k]) for k in range(n)])
    if np.max(np.abs(mc - mc_ref)) > 1e-8:
        V("VGBS.mean_clicks_by_mode", "not-the-state-mean", "differs by %.3g" % np.max(np.abs(mc - mc_ref)))
    nm = vg0.n_mean(theta)
    nm_ref = float(np.sum(mc_ref if thr else mp_ref))
    if abs(nm - nm_ref) > 1e-8 * (1 + nm_ref):
        V("VGBS.n_mean", "not-the-state-mean:" + mode, "n_mean %.10g, state has %.10g" % (nm, nm_ref))

    # ---- probabilities + normalisation
    if thr:
        rep.monitor("prob_sample.threshold")
        rep.monitor("normalisation.threshold")
        tot = 0.0
        worst = 0.0
        pats = list(itertools.product([0, 1], repeat=n))
        probs = {}
        for pat in pats:
            p = float(np.real(vg0.prob_sample(theta, np.array(pat))))
            pr = rp.click_prob(g.mu, g.V, pat)
            probs[pat] = pr
            tot += p
            worst = max(worst, abs(p - pr))
        rep.dev("prob_click", worst, 1e-8)
        if worst > 1e-8:
            V("prob_click", "not-the-state-probability", "click probability differs from the state's by %.3g" % worst)
        if abs(tot - 1) > 1e-8:
            V("prob_click", "not-normalised", "click probabilities over all %d patterns add up to %.10g" % (len(pats), tot))
        cand = [p for p in pats if probs[p] > 1e-9]
    else:
        rep.monitor("prob_sample.pnr")
        rep.monitor("normalisation.pnr")
        nmax = 6 if n <= 3 else 4
        PN = rp.total_photon_dist(g.mu, g.V, nmax)
        worst = 0.0
        worst_rel = 0.0
        probs = {}
        for N in range(nmax + 1):
            s = 0.0
            for pat in rp.patterns_with_total(n, N):
                p = float(vg0.prob_sample(theta, np.array(pat)))
                s += p
                if N <= 4:
                    # two independent routes: the textbook pure-state formula on A itself (keeps structural zeros
                    # exact, needed when all probabilities are tiny) and the general Gaussian-state formula on the
                    # RefGauss state; they must agree with each other before the library is judged
                    pr = rp.pure_gbs_prob(Ath_ref, pat)
                    pr2 = rp.fock_prob(g.mu, g.V, pat)
                    if abs(pr - pr2) > 1e-11:
                        rep.error("oracle-disagreement(pure formula vs Gaussian formula)", RuntimeError("%g %g" % (pr, pr2)))
                    probs[pat] = pr
                    worst = max(worst, abs(p - pr))
                    if pr > 1e-300 and p > 0:
                        worst_rel = max(worst_rel, abs(np.log(p) - np.log(pr)) if pr > 1e-6 * PN[N] else 0.0)
                    elif (pr > 1e-6 * PN[N]) != (p > 1e-6 * PN[N]):
                        worst_rel = np.inf
            if abs(s - PN[N]) > 1e-8:
                V("prob_photon_sample", "not-normalised",
                  "probabilities of all patterns with %d photons add up to %.10g, the state has P(N=%d) = %.10g"
                  % (N, s, N, PN[N]))
        rep.dev("prob_photon_sample", worst, 1e-8)
        rep.dev("prob_photon_sample(relative, log)", worst_rel if np.isfinite(worst_rel) else 1e9, 1e-6)
        if worst > 1e-8 or worst_rel > 1e-6:
            V("prob_photon_sample", "not-the-state-probability", "probability differs from the state's by %.3g (absolute) / "
              "%.3g (log ratio)" % (worst, worst_rel))
        # data must have non-zero probability; "non-zero" is judged relative to the most likely pattern with the same
        # photon number, so that strongly damped models (all probabilities tiny) are exercised too
        top = {}
        for pat, v in probs.items():
            top[sum(pat)] = max(top.get(sum(pat), 0.0), v)
        # (odd totals are impossible for a lossless pure state: the reference returns rounding noise there)
        cand = [pat for pat, v in probs.items() if sum(pat) % 2 == 0 and v > 1e-6 * top[sum(pat)] and v > 1e-40]
    if not cand:
        rep.skip("no pattern with positive probability")
        return

    # ---- KL cost and gradient
    data = np.array([cand[int(i)] for i in rng.integers(len(cand), size=case["n_data"])])
    vg = param.VGBS(A, case["n_mean"], emb, thr, samples=data.copy())
    kl = cost.KL(data, vg)
    val = kl.evaluate(theta)
    val_ref = -np.mean([np.log(probs[tuple(s)]) for s in data])
    if abs(val - val_ref) > 1e-6 * (1 + abs(val_ref)):
        V("KL.evaluate", "not-the-log-likelihood:" + mode, "cost %.10g, -mean log p = %.10g" % (val, val_ref))
    gk = kl.grad(theta)
    fk = fd_grad(kl.evaluate, theta)
    devk = float(np.max(np.abs(gk - fk)))
    if thr:
        rep.observe("KL.grad.threshold(observed only)")
        rep.dev("KL.grad.threshold(observed)", devk, float("inf"))
    else:
        rep.monitor("KL.grad.pnr")
        rep.seen("flags", "KL.grad.nonzero" if np.linalg.norm(fk) > 1e-6 else "KL.grad.zero")
        rep.dev("KL.grad", devk, 2e-6 * (1 + np.max(np.abs(fk))))
        if devk > 2e-6 * (1 + np.max(np.abs(fk))):
            V("KL.grad", "not-derivative-of-cost", "gradient differs from finite differences of KL.evaluate by %.3g "
              "(|grad| %.3g)" % (devk, np.linalg.norm(fk)))

    # ---- stochastic cost: reparametrisation identity and gradient
    hc = rng.normal(size=n)
    hq = rng.normal(size=(n, n)) * 0.3

    def h(s):
        s = np.asarray(s, dtype=float)
        return float(hc @ s + s @ hq @ s + 0.7)

    st = cost.Stochastic(h, vg)
    ns = len(data)
    if not thr:
        rep.monitor("Stochastic.reparametrisation")
        g_init = ref_state_from_A(A0)
        for s in data[:3]:
            lhs = st.h_reparametrized(s, theta) * rp.fock_prob(g_init.mu, g_init.V, s)
            rhs = h(s) * probs[tuple(s)]
            if abs(lhs - rhs) > 1e-8 * (1 + abs(rhs)):
                V("Stochastic.h_reparametrized", "importance-weight",
                  "h_rep(S) p_init(S) = %.10g but h(S) p_theta(S) = %.10g" % (lhs, rhs))
        ev = st.evaluate(theta, ns)
        ev_ref = float(np.mean([st.h_reparametrized(s, theta) for s in data]))
        if abs(ev - ev_ref) > 1e-10 * (1 + abs(ev_ref)):
            V("Stochastic.evaluate", "not-the-sample-mean", "evaluate %.10g, mean of h_rep over the samples %.10g" % (ev, ev_ref))
        gs = st.grad(theta, ns)
        fs = fd_grad(lambda x: st.evaluate(x, ns), theta)
        devs = float(np.max(np.abs(gs - fs)))
        rep.monitor("Stochastic.grad.pnr")
        rep.dev("Stochastic.grad", devs, 2e-6 * (1 + np.max(np.abs(fs))))
        if devs > 2e-6 * (1 + np.max(np.abs(fs))):
            V("Stochastic.grad", "not-derivative-of-cost", "gradient differs from finite differences of "
              "Stochastic.evaluate by %.3g" % devs)
        if not np.array_equal(vg.A_init_samples, data):
            V("VGBS.get_A_init_samples", "cache-modified", "stored samples changed although enough were available")
    else:
        rep.observe("Stochastic.grad.threshold(observed only)")

    # ---- the same objects asked again after the caller's parameter array was updated in place (a training loop does
    # `params -= lr * grad`): every answer must be the one a fresh object gives for the new values
    rep.monitor("vgbs.in-place-parameter-update")

    def answers(vgx, klx, th):
        out = {"A": np.array(vgx.A(th)), "n_mean": float(vgx.n_mean(th)), "mean_photons": np.array(vgx.mean_photons_by_mode(th)),
               "mean_clicks": np.array(vgx.mean_clicks_by_mode(th)), "W": np.array(vgx.W(th)),
               "prob_sample": float(np.real(vgx.prob_sample(th, np.array(data[0]))))}
        if klx is not None:
            out["KL.evaluate"] = float(klx.evaluate(th))
            out["KL.grad"] = np.array(klx.grad(th))
        return out

    th_live = np.array(theta, dtype=float)
    vg_live = param.VGBS(A, case["n_mean"], emb, thr, samples=data.copy())
    kl_live = cost.KL(data, vg_live) if not thr else None
    answers(vg_live, kl_live, th_live)
    for step in range(2):
        th_live += 0.07 * (1 + np.abs(th_live))  # in place: same array object, larger theta = weaker model (stays in the domain)
        got = answers(vg_live, kl_live, th_live)
        vg_new = param.VGBS(A, case["n_mean"], emb, thr, samples=data.copy())
        want = answers(vg_new, cost.KL(data, vg_new) if not thr else None, th_live.copy())
        for key in want:
            dkey = float(np.max(np.abs(np.asarray(got[key]) - np.asarray(want[key]))))
            if dkey > 1e-10 * (1 + float(np.max(np.abs(np.asarray(want[key]))))):
                V("VGBS." + key if not key.startswith("KL") else key, "stale-after-in-place-parameter-update",
                  "after the caller's parameter array was updated in place (step %d) %s differs by %.3g from what a fresh object "
                  "returns for the same values" % (step + 1, key, dkey))
                break

    # ---- sample generation and cache discipline
    if case["sample_calls"]:
        rep.monitor("vgbs.samples")
        calls = []
        orig = vg0.generate_samples

        def tapped(Amat, n_samples, **kw):
            out = orig(Amat, n_samples, **kw)
            calls.append((np.array(Amat), int(n_samples), np.array(out)))
            return out

        vg0.generate_samples = tapped
        np.random.seed(case["hseed"] % (2 ** 31))
        s3 = np.array(vg0.get_A_init_samples(3))
        s5 = np.array(vg0.get_A_init_samples(5))
        s2 = np.array(vg0.get_A_init_samples(2))
        if s3.shape != (3, n) or s5.shape != (5, n) or s2.shape != (2, n):
            V("VGBS.get_A_init_samples", "shape", "shapes %s %s %s" % (s3.shape, s5.shape, s2.shape))
        elif not (np.array_equal(s5[:3], s3) and np.array_equal(s2, s3[:2])):
            V("VGBS.get_A_init_samples", "prefix-not-stable", "earlier samples are not a prefix of later requests")
        if [c[1] for c in calls] != [3, 2]:
            V("VGBS.get_A_init_samples", "generation-count", "sampler asked for %s samples (expected [3, 2])" % [c[1] for c in calls])
        for Amat, k, out in calls:
            if np.max(np.abs(Amat - A0)) > 1e-12:
                V("VGBS.get_A_init_samples", "wrong-matrix", "samples were generated from a matrix other than A_init")
            out = np.asarray(out)
            if out.min() < 0 or (thr and out.max() > 1):
                V("VGBS.generate_samples", "sample-domain", "sample values outside the detector's range: %s" % out.tolist())
            if not thr and np.any((out.sum(axis=1) % 2 == 1) & (out.sum(axis=1) <= WALRUS_CUTOFF)):
                V("VGBS.generate_samples", "odd-photon-number", "a lossless pure GBS state produced an odd total: %s" % out.tolist())


def run_similarity(case, rep, V):
    import networkx as nx
    from strawberryfields.apps import similarity
    from sympy.utilities.iterables import multiset_permutations

    A = np.array(case["A"])
    n = len(A)
    g = nx.from_numpy_array(A)
    orbit = list(case["orbit"])
    loss = case["loss"]
    x = scale_for_mean_photons(A, case["n_mean"])
    gs = ref_state_from_A(x * A)
    mu, Vc = lossy(gs, loss)
    rep.monitor("prob_orbit_exact")
    p = similarity.prob_orbit_exact(g, orbit, case["n_mean"], loss)
    members = [tuple(m) for m in multiset_permutations(orbit + [0] * (n - len(orbit)))]
    mprob = {m: rp.fock_prob(mu, Vc, m) for m in members}
    pref = sum(mprob.values())
    rep.case(["sim", rnd(A, 4), orbit, round(case["n_mean"], 5), round(loss, 5), case["maxc"]], 1e-12 < pref < 1)
    rep.dev("prob_orbit_exact", abs(p - pref), 1e-8)
    if abs(p - pref) > 1e-8:
        V("prob_orbit_exact", "not-the-state-probability" + (":lossy" if loss > 0 else ""),
          "orbit %s: returned %.10g, state has %.10g" % (orbit, p, pref))

    rep.monitor("prob_event_exact")
    N, maxc = case["photons"], case["maxc"]
    pe = similarity.prob_event_exact(g, N, maxc, case["n_mean"], loss)
    pe_ref = sum(rp.fock_prob(mu, Vc, pat) for pat in rp.patterns_with_total(n, N, maxc))
    if abs(pe - pe_ref) > 1e-8:
        V("prob_event_exact", "not-the-state-probability" + (":lossy" if loss > 0 else ""),
          "event (%d photons, <= %d per mode): returned %.10g, state has %.10g" % (N, maxc, pe, pe_ref))
    # conservation: the event with no per-mode limit is "N photons in total"
    pN = similarity.prob_event_exact(g, N, N, case["n_mean"], loss)
    PN = rp.total_photon_dist(mu, Vc, N)[N]
    rep.dev("event=total-photon-distribution", abs(pN - PN), 1e-8)
    if abs(pN - PN) > 1e-8:
        V("prob_event_exact", "not-total-photon-distribution",
          "P(event of %d photons, unlimited per mode) = %.10g but P(N = %d) = %.10g" % (N, pN, N, PN))

    # ---- feature vectors (exact mode) are the lists of these probabilities, in the order of the request ----------------------
    rep.monitor("feature_vectors(exact)")
    o2 = [1] * min(max(1, sum(orbit) - 1), n)
    p2 = sum(rp.fock_prob(mu, Vc, tuple(m)) for m in multiset_permutations(o2 + [0] * (n - len(o2))))
    fv = similarity.feature_vector_orbits(g, [o2, orbit], n_mean=case["n_mean"], loss=loss)
    if len(fv) != 2 or abs(fv[0] - p2) > 1e-8 or abs(fv[1] - pref) > 1e-8:
        V("feature_vector_orbits", "not-the-orbit-probabilities", "orbits [%s, %s]: returned %s, the state has [%.10g, %.10g]" % (
            o2, orbit, np.round(fv, 10).tolist(), p2, pref))
    N2 = max(0, N - 1)
    pe2 = sum(rp.fock_prob(mu, Vc, pat) for pat in rp.patterns_with_total(n, N2, maxc))
    fe = similarity.feature_vector_events(g, [N2, N], maxc, n_mean=case["n_mean"], loss=loss)
    if len(fe) != 2 or abs(fe[0] - pe2) > 1e-8 or abs(fe[1] - pe_ref) > 1e-8:
        V("feature_vector_events", "not-the-event-probabilities", "events [%d, %d] (<= %d per mode): returned %s, the state has [%.10g, %.10g]" % (
            N2, N, maxc, np.round(fe, 10).tolist(), pe2, pe_ref))

    rep.monitor("prob_mc.bounds")
    np.random.seed(case["mc_seed"])
    k = case["mc_samples"]
    pm = similarity.prob_orbit_mc(g, orbit, case["n_mean"], k, loss)
    lo, hi = len(members) * min(mprob.values()), len(members) * max(mprob.values())
    if not (lo - 1e-9 <= pm <= hi + 1e-9):
        V("prob_orbit_mc", "estimate-outside-attainable-range", "estimate %.6g outside [%.6g, %.6g]" % (pm, lo, hi))
    if hi - lo < 1e-12 and abs(pm - pref) > 1e-8:
        V("prob_orbit_mc", "not-exact-for-uniform-orbit", "estimate %.10g, exact %.10g" % (pm, pref))
    ev_members = list(rp.patterns_with_total(n, N, maxc))
    if ev_members:
        evp = [rp.fock_prob(mu, Vc, pat) for pat in ev_members]
        pem = similarity.prob_event_mc(g, N, maxc, case["n_mean"], k, loss)
        lo, hi = len(ev_members) * min(evp), len(ev_members) * max(evp)
        if not (lo - 1e-9 <= pem <= hi + 1e-9):
            V("prob_event_mc", "estimate-outside-attainable-range", "estimate %.6g outside [%.6g, %.6g]" % (pem, lo, hi))


def vib_reference(w, wp, Ud, delta, T):
    """Gaussian state (mu, V) over [final modes, initial modes] implied by x' = J x + delta, p' = J^-T p acting on
    the first half of thermal two-mode squeezed pairs."""
    n = len(w)
    J = np.diag(np.sqrt(wp)) @ Ud @ np.diag(1 / np.sqrt(w))
    if T > 0:
        beta = H * C * 100.0 * w / (KB * T)
        nbar = 1.0 / np.expm1(beta)
        g = rg.GState(2 * n)
        for i in range(n):
            r = float(np.arcsinh(np.sqrt(nbar[i])))
            if r > 0:
                S, d = rg.gate_sd("S2gate", [r, 0.0])
                g.apply_sd(S, d, [i, i + n])
        m = 2 * n
    else:
        g = rg.GState(n)
        m = n
        nbar = np.zeros(n)
    S = np.block([[J, np.zeros((n, n))], [np.zeros((n, n)), np.linalg.inv(J).T]])
    d = np.concatenate([np.sqrt(2.0) * delta, np.zeros(n)])  # hbar = 2: x = sqrt(2) * dimensionless x
    g.apply_sd(S, d, list(range(n)))
    return g, J, nbar, m


def run_vibronic(case, rep, V):
    from strawberryfields.apps.qchem import vibronic
    import strawberryfields as sf

    w, wp, Ud, delta, T = (np.array(case["w"]), np.array(case["wp"]), np.array(case["Ud"]),
                           np.array(case["delta"]), case["T"])
    n = len(w)
    t, U1, r, U2, alpha = vibronic.gbs_params(w, wp, Ud, delta, T)
    rep.monitor("gbs_params")
    J = np.diag(np.sqrt(wp)) @ Ud @ np.diag(1 / np.sqrt(w))
    squeezed = bool(np.max(np.abs(np.linalg.svd(J, compute_uv=False) - 1)) > 1e-6)
    rep.case(["vib", rnd(w, 2), rnd(wp, 2), rnd(Ud, 5), rnd(delta, 5), round(T, 2)], squeezed or bool(np.any(delta != 0)))
    for nm, U in (("U1", U1), ("U2", U2)):
        if np.max(np.abs(U @ U.conj().T - np.eye(n))) > 1e-10:
            V("gbs_params", "interferometer-not-unitary", "%s is not unitary" % nm)
    if np.max(np.abs(U2 @ np.diag(np.exp(r)) @ U1 - J)) > 1e-9 * (1 + np.max(np.abs(J))):
        V("gbs_params", "duschinsky-not-reconstructed", "U2 exp(r) U1 differs from sqrt(wp) Ud / sqrt(w)")
    if np.max(np.abs(alpha - delta / np.sqrt(2))) > 1e-12:
        V("gbs_params", "displacement", "alpha is not delta / sqrt(2)")
    if T > 0:
        nbar_ref = 1.0 / np.expm1(H * C * 100.0 * w / (KB * T))
        nbar = np.sinh(t) ** 2
        if np.max(np.abs(nbar - nbar_ref) / (1e-300 + nbar_ref + 1e-12)) > 1e-6:
            V("gbs_params", "thermal-occupation", "sinh^2 t = %s, Bose-Einstein = %s" % (nbar.tolist(), nbar_ref.tolist()))
    elif np.any(t != 0):
        V("gbs_params", "thermal-occupation", "non-zero two-mode squeezing at T = 0")

    # ---- the state produced by the library's operation (on the library's own simulator)
    gref, J, nbar_ref, m = vib_reference(w, wp, Ud, delta, T)
    prog = sf.Program(m)
    with prog.context as q:
        if T > 0:
            for i in range(n):
                sf.ops.S2gate(t[i]) | (q[i], q[i + n])
        vibronic.VibronicTransition(U1, r, U2, alpha) | tuple(q[i] for i in range(n))
    state = sf.Engine("gaussian").run(prog).state
    mu_l = state.means() * np.sqrt(2.0 / sf.hbar)
    V_l = state.cov() * (2.0 / sf.hbar)
    rep.monitor("vibronic.state")
    devs = max(np.max(np.abs(mu_l - gref.mu)), np.max(np.abs(V_l - gref.V)))
    tol = 1e-7 * (1 + np.max(np.abs(gref.V)))
    rep.dev("vibronic.state", devs if not squeezed else 0.0, tol)
    state_ok = devs <= tol
    flipped = False
    if not state_ok:
        # is it the known mechanism? the state of x' = J^-T x + delta, p' = J p (squeezing applied with the
        # opposite sign) -- anything else is reported under its own kind
        gf, _, _, _ = vib_reference(w, wp, Ud, np.zeros(n), T)
        Jt = np.linalg.inv(J).T
        S_un = np.block([[J, np.zeros((n, n))], [np.zeros((n, n)), Jt]])
        S_fl = np.block([[Jt, np.zeros((n, n))], [np.zeros((n, n)), J]])
        idx = list(range(n)) + [i + m for i in range(n)]
        full = np.eye(2 * m)
        full[np.ix_(idx, idx)] = S_fl @ np.linalg.inv(S_un)
        V_f = full @ gf.V @ full.T
        mu_f = np.zeros(2 * m)
        mu_f[:n] = np.sqrt(2.0) * delta
        flipped = max(np.max(np.abs(mu_l - mu_f)), np.max(np.abs(V_l - V_f))) <= tol
        if flipped:
            V("gbs_params+VibronicTransition", "franck-condon-mismatch:squeezing-sign",
              "the programmed state has x' = J^-T x + delta (variances %s) while the Duschinsky relation x' = J x + delta "
              "requires %s" % (np.round(np.diag(V_l)[:n], 4).tolist(), np.round(np.diag(gref.V)[:n], 4).tolist()))
        else:
            V("gbs_params+VibronicTransition", "state-not-duschinsky",
              "programmed Gaussian state differs from the Duschinsky-transformed state by %.3g" % devs)

    # ---- Franck-Condon factors by direct integration (1-2 modes)
    if n <= 2:
        rep.monitor("franck_condon")
        worst = 0.0
        maxq = 2 if n == 2 else 4
        finals = list(itertools.product(range(maxq + 1), repeat=n))
        inits = [tuple([0] * n)] if T == 0 else [tuple([0] * n)] + [tuple(int(i == k) for i in range(n)) for k in range(n)]
        for ni in inits:
            if T > 0:
                pth = float(np.prod([(1 - np.exp(-H * C * 100.0 * w[k] / (KB * T))) *
                                     np.exp(-H * C * 100.0 * w[k] / (KB * T) * ni[k]) for k in range(n)]))
            else:
                pth = 1.0
            for nf in finals:
                fc = rp.franck_condon(J, delta, nf, ni) ** 2 * pth
                pat = list(nf) + (list(ni) if T > 0 else [])
                pl = float(state.fock_prob(pat, cutoff=sum(pat) + 2))
                # the reference Gaussian state must agree with the integral (oracle cross-check, not a verdict
                # on the library)
                pr = rp.fock_prob(gref.mu, gref.V, pat)
                if abs(pr - fc) > 5e-7:
                    rep.error("oracle-disagreement(FC integral vs reference state)", RuntimeError("%.8g vs %.8g for %s" % (fc, pr, pat)))
                worst = max(worst, abs(pl - fc))
        rep.dev("franck_condon", worst if state_ok else 0.0, 2e-6)
        if worst > 2e-6 and state_ok:
            V("VibronicTransition", "franck-condon-mismatch", "Fock probabilities differ from Franck-Condon integrals "
              "by %.3g although the Gaussian moments agree" % worst)
        if worst > 2e-6 and not state_ok:
            rep.seen("flags", "fcf-mismatch-confirmed-by-integration")
        if worst <= 2e-6 and not state_ok and squeezed and np.any(delta != 0):
            rep.seen("flags", "fcf-insensitive-case")

    # ---- samples: shape
    np.random.seed(7)
    s, snap = premeasure(lambda: vibronic.sample(t, U1, r, U2, alpha, case["n_samples"], case["loss"]))
    if snap is None:
        V("vibronic.sample", "no-measurement", "no MeasureFock was applied")
    else:
        # sample() must measure the state of the documented circuit (checked above), attenuated by the loss
        rep.monitor("vibronic.sample-state")
        T_ = 1.0 - case["loss"]
        mu_s, V_s = np.sqrt(T_) * mu_l, T_ * V_l + (1 - T_) * np.eye(len(V_l))
        if snap.V.shape != V_s.shape:
            V("vibronic.sample", "measured-state", "sample() simulates %d modes, the documented circuit has %d"
              % (len(snap.V) // 2, len(V_s) // 2))
        else:
            dv = gauss_dev(snap, mu_s, V_s)
            if dv > 1e-8 * (1 + np.max(np.abs(V_s))):
                V("vibronic.sample", "measured-state", "state measured by sample() differs from the documented circuit "
                  "followed by loss %.3g by %.3g" % (case["loss"], dv))
    if len(s) != case["n_samples"] or any(len(x) != 2 * n for x in s):
        V("vibronic.sample", "sample-shape", "samples of lengths %s for %d modes" % ([len(x) for x in s], n))
    elif T == 0 and any(any(x[n:]) for x in s):
        V("vibronic.sample", "photons-in-unused-modes", "zero-temperature samples have quanta in the initial-state modes")
    en = vibronic.energies([list(map(int, x)) for x in s], w, wp)
    en_ref = [float(np.dot(x[:n], wp) - np.dot(x[n:], w)) for x in s]
    if len(s[0]) == 2 * n and np.max(np.abs(np.array(en) - np.array(en_ref))) > 1e-9:
        V("vibronic.energies", "definition", "energies differ from n'.wp - n.w")


def run_duschinsky(case, rep, V):
    from strawberryfields.apps.qchem import utils

    Li, Lf, ri, rf, wf, m, r = (np.array(case[k]) for k in ("Li", "Lf", "ri", "rf", "wf", "m", "r"))
    U, delta = utils.duschinsky(Li, Lf, ri, rf, wf, m)
    rep.monitor("duschinsky")
    rep.case(["dus", rnd(Li, 5), rnd(Lf, 5), rnd(ri, 5), rnd(rf, 5)], True)
    # normal coordinates of an arbitrary geometry r in both frames
    qi = Li.T @ (np.sqrt(m) * (r - ri))
    qf = Lf.T @ (np.sqrt(m) * (r - rf))
    # the part of the displacement that lies in the span of the initial normal modes transforms with U
    P = Li @ Li.T
    r_in = ri + (P @ (np.sqrt(m) * (r - ri))) / np.sqrt(m)
    qi_in = Li.T @ (np.sqrt(m) * (r_in - ri))
    qf_in = Lf.T @ (np.sqrt(m) * (r_in - rf))
    # dimensionless -> Angstrom sqrt(amu)
    omega = 2 * np.pi * C * 100.0 * wf
    l = np.sqrt((H / (2 * np.pi)) / omega) / (1e-10 * np.sqrt(MU))
    d = delta * l
    dev = np.max(np.abs(qf_in - (U @ qi_in + d)))
    # 1e-6 relative: scipy's CODATA release may differ from the constants written out above in the 9th digit
    tol = 1e-6 * (1 + np.max(np.abs(qf_in)) + np.max(np.abs(d)))
    rep.dev("duschinsky", dev, tol)
    if dev > tol:
        V("duschinsky", "relation-not-reproduced", "q_f differs from U q_i + d by %.3g on a random geometry" % dev)
    if np.max(np.abs(U - Lf.T @ Li)) > 1e-12:
        V("duschinsky", "rotation", "U is not Lf^T Li")


def premeasure(call):
    """Run call() and return (result, snapshot of the simulator state at the first MeasureFock)."""
    from ..simrun import Snap

    snaps = []

    def pre(op, reg, backend, kwargs):
        if type(op).__name__ == "MeasureFock" and not snaps:
            snaps.append(Snap(backend))

    with CommandTap() as tap:
        tap.pre.append(pre)
        out = call()
    return out, (snaps[0] if snaps else None)


def permanent(M):
    n = M.shape[0]
    if n == 0:
        return 1.0 + 0j
    return sum(np.prod([M[i, p[i]] for i in range(n)]) for p in itertools.permutations(range(n)))


def fock_transition_prob(U, n_in, n_out):
    """|<n_out| U |n_in>|^2 for the linear-optical unitary a_out = U a_in."""
    rows = [j for j, c in enumerate(n_out) for _ in range(c)]
    cols = [k for k, c in enumerate(n_in) for _ in range(c)]
    if len(rows) != len(cols):
        return 0.0
    amp = permanent(U[np.ix_(rows, cols)])
    norm = np.prod([math.factorial(c) for c in n_in]) * np.prod([math.factorial(c) for c in n_out])
    return float(abs(amp) ** 2 / norm)


def gauss_dev(snap, mu, Vc):
    return max(float(np.max(np.abs(snap.mu - mu))), float(np.max(np.abs(snap.V - Vc))))


def run_dynamics(case, rep, V):
    from strawberryfields.apps.qchem import dynamics
    import strawberryfields as sf

    w, t, Ul = np.array(case["w"]), case["t"], np.array(case["Ul"])
    n = len(w)
    theta_ref = -2 * np.pi * C * 100.0 * w * t * 1e-15
    rep.case(["dyn", rnd(w, 2), round(t, 4), rnd(Ul, 5), case["fock_in"], round(case["loss"], 4)],
             t > 0 and not np.allclose(np.abs(Ul), np.eye(n)))
    # ---- TimeEvolution: command stream and state
    rep.monitor("TimeEvolution")
    g0 = rg.random_state(np.random.default_rng(case["state_seed"]), n, energy=0.5, mixed=True, displaced=True)
    prep = sf.Program(n)
    with prep.context as q:
        sf.ops.Gaussian(g0.V * sf.hbar / 2, r=g0.mu * np.sqrt(sf.hbar / 2)) | tuple(q)
    prog = sf.Program(prep)
    with prog.context as q:
        dynamics.TimeEvolution(w, t) | tuple(q)
    eng = sf.Engine("gaussian")
    eng.run(prep)
    rg_cmds = []

    def post(op, reg, backend, kwargs, res, exc):
        if type(op).__name__ == "Rgate":
            rg_cmds.append(("Rgate", [r.ind for r in reg], [float(x) for x in op.p]))

    with CommandTap() as tap:
        tap.post.append(post)
        st = eng.run(prog).state
    if [c[1] for c in rg_cmds] != [[i] for i in range(n)]:
        V("TimeEvolution", "rotation-targets", "rotations applied to %s" % [c[1] for c in rg_cmds])
    else:
        got = np.array([float(c[2][0]) for c in rg_cmds])
        if np.max(np.abs(got - theta_ref)) > 1e-9 * (1 + np.max(np.abs(theta_ref))):
            V("TimeEvolution", "phase", "rotation angles %s, -omega t = %s" % (got.tolist(), theta_ref.tolist()))
    gref = g0.copy()
    for i in range(n):
        S, d = rg.gate_sd("Rgate", [float(theta_ref[i])])
        gref.apply_sd(S, d, [i])
    mu_l = st.means() * np.sqrt(2.0 / sf.hbar)
    V_l = st.cov() * (2.0 / sf.hbar)
    dev = max(np.max(np.abs(mu_l - gref.mu)), np.max(np.abs(V_l - gref.V)))
    if dev > 1e-8 * (1 + np.max(np.abs(gref.V))):
        V("TimeEvolution", "state", "evolved state differs from exp(-i omega t n)-evolution by %.3g" % dev)
    n_before = rp.mean_photons(g0.mu, g0.V)
    n_after = rp.mean_photons(mu_l, V_l)
    if np.max(np.abs(n_before - n_after)) > 1e-8 * (1 + np.max(n_before)):
        V("TimeEvolution", "photon-number-not-conserved", "per-mode photon numbers %s -> %s" % (n_before.tolist(), n_after.tolist()))

    # ---- samplers: conservation laws observed on the returned samples
    rep.monitor("dynamics.conservation")
    loss = case["loss"]
    fin = case["fock_in"]
    tot = sum(fin)
    np.random.seed(case["state_seed"] % (2 ** 31))
    U_tot = Ul.astype(complex) @ np.diag(np.exp(1j * theta_ref)) @ Ul.T
    s, snap = premeasure(lambda: dynamics.sample_fock(fin, t, Ul, w, case["n_samples"], tot + 1 + (1 if loss else 0), loss))
    if snap is None:
        V("sample_fock", "no-measurement", "no MeasureFock was applied")
    elif loss == 0 and tot <= 5:
        rep.monitor("dynamics.premeasure-state")
        worst, total = 0.0, 0.0
        for pat in rp.patterns_with_total(n, tot):
            ref = fock_transition_prob(U_tot, fin, pat)
            idx = tuple(k for c in pat for k in (c, c))
            got = float(np.real(snap.dm[idx]))
            worst = max(worst, abs(got - ref))
            total += ref
        if abs(total - 1) > 1e-9:
            rep.error("oracle(permanent) not normalised", RuntimeError(str(total)))
        rep.dev("sample_fock.distribution", worst, 1e-7)
        if worst > 1e-7:
            V("sample_fock", "measured-state-not-U(t)", "photon distribution before the measurement differs from "
              "|<m|Ul exp(-i w t) Ul^T|n>|^2 by %.3g (input %s)" % (worst, fin))
    elif snap is not None:
        # first moments under loss: <n_j> = (1 - loss) sum_k |U_jk|^2 n_k
        rep.monitor("dynamics.premeasure-state")
        ref = (1 - loss) * (np.abs(U_tot) ** 2 @ np.array(fin, dtype=float))
        got = np.array([float(np.real(np.trace(snap.reduced_matrix([j]) @ np.diag(np.arange(snap.D))))) for j in range(n)])
        if np.max(np.abs(got - ref)) > 1e-7:
            V("sample_fock", "measured-state-not-U(t):lossy", "mean photon numbers before the measurement %s, expected %s"
              % (np.round(got, 6).tolist(), np.round(ref, 6).tolist()))
    if len(s) != case["n_samples"] or any(len(x) != n for x in s):
        V("sample_fock", "sample-shape", "shape of samples %s" % (np.shape(s),))
    for x in s:
        if loss == 0 and sum(x) != tot:
            V("sample_fock", "photon-number-not-conserved", "input %s (%d photons) gave sample %s" % (fin, tot, x))
            break
        if loss > 0 and sum(x) > tot:
            V("sample_fock", "photons-created-under-loss", "input %s gave sample %s" % (fin, x))
            break
        if loss == 1 and sum(x) != 0:
            V("sample_fock", "photons-survive-total-loss", "sample %s" % (x,))
            break
    if loss == 0 and (t == 0 or np.allclose(Ul, np.eye(n))):
        # U(t) = Ul diag(e^{-i w t}) Ul^T is diagonal: Fock states are left unchanged
        if any(list(x) != list(fin) for x in s):
            V("sample_fock", "identity-evolution-changes-state", "input %s, samples %s" % (fin, s))
        rep.seen("flags", "sample_fock:identity-evolution")
    s, snap = premeasure(lambda: dynamics.sample_tmsv(case["r"], t, Ul, w, case["n_samples"], loss))
    gt = rg.GState(2 * n)
    for i in range(n):
        S, d = rg.gate_sd("S2gate", [case["r"][i][0], case["r"][i][1]])
        gt.apply_sd(S, d, [i, i + n])
    gt.apply_sd(rg.interferometer_S(U_tot), np.zeros(2 * n), list(range(n)))
    mu_t, V_t = lossy(gt, loss)
    if snap is None:
        V("sample_tmsv", "no-measurement", "no MeasureFock was applied")
    else:
        rep.monitor("dynamics.premeasure-state")
        dv = gauss_dev(snap, mu_t, V_t)
        rep.dev("sample_tmsv.state", dv, 1e-8 * (1 + np.max(np.abs(V_t))))
        if dv > 1e-8 * (1 + np.max(np.abs(V_t))):
            V("sample_tmsv", "measured-state-not-U(t)", "Gaussian state before the measurement differs from the "
              "two-mode-squeezed state evolved by Ul exp(-i w t) Ul^T by %.3g" % dv)
    if len(s) != case["n_samples"] or any(len(x) != 2 * n for x in s):
        V("sample_tmsv", "sample-shape", "shape of samples %s" % (np.shape(s),))
    else:
        for x in s:
            if max(sum(x[:n]), sum(x[n:])) > WALRUS_CUTOFF:
                # The Walrus' chain-rule sampler renormalises every conditional distribution over 0..cutoff; when
                # conservation would require a count above the cutoff the conditional is 0/0 and the drawn value is
                # noise.  Such samples (more than `cutoff` photons in one half) cannot be judged.
                rep.observe("sample-beyond-sampler-cutoff(not judged)")
                continue
            if loss == 0 and sum(x[:n]) != sum(x[n:]):
                V("sample_tmsv", "pair-number-not-conserved", "sample %s: %d photons in the evolved half, %d in the "
                  "reference half" % (x, sum(x[:n]), sum(x[n:])))
                break
            if loss == 1 and sum(x) != 0:
                V("sample_tmsv", "photons-survive-total-loss", "sample %s" % (x,))
                break
    s, snap = premeasure(lambda: dynamics.sample_coherent(case["alpha"], t, Ul, w, case["n_samples"], loss))
    gc = rg.GState(n)
    for i in range(n):
        S, d = rg.gate_sd("Dgate", [case["alpha"][i][0], case["alpha"][i][1]])
        gc.apply_sd(S, d, [i])
    gc.apply_sd(rg.interferometer_S(U_tot), np.zeros(2 * n), list(range(n)))
    mu_c, V_c = lossy(gc, loss)
    if snap is None:
        V("sample_coherent", "no-measurement", "no MeasureFock was applied")
    else:
        rep.monitor("dynamics.premeasure-state")
        dv = gauss_dev(snap, mu_c, V_c)
        rep.dev("sample_coherent.state", dv, 1e-8 * (1 + np.max(np.abs(mu_c))))
        if dv > 1e-8 * (1 + np.max(np.abs(mu_c))):
            V("sample_coherent", "measured-state-not-U(t)", "Gaussian state before the measurement differs from the "
              "coherent state evolved by Ul exp(-i w t) Ul^T by %.3g" % dv)
    if len(s) != case["n_samples"] or any(len(x) != n for x in s):
        V("sample_coherent", "sample-shape", "shape of samples %s" % (np.shape(s),))
    elif loss == 1 and any(sum(x) != 0 for x in s):
        V("sample_coherent", "photons-survive-total-loss", "samples %s" % (s,))


def run_marginals(case, rep, V):
    from strawberryfields.apps.qchem import utils

    n = case["n"]
    g = rg.random_state(np.random.default_rng(case["state_seed"]), n, energy=0.5, mixed=case["mixed"],
                        displaced=case["displaced"])
    hb = case["hbar"]
    mu = g.mu * np.sqrt(hb / 2)
    Vc = g.V * hb / 2
    rep.monitor("marginals")
    rep.case(["marg", n, case["state_seed"], case["n_max"], hb], True)
    p = utils.marginals(mu, Vc, case["n_max"], hbar=hb)
    if p.shape != (n, case["n_max"]):
        V("marginals", "shape", "shape %s" % (p.shape,))
        return
    worst = 0.0
    for k in range(n):
        m1, v1 = rp.reduced(g.mu, g.V, [k])
        ref = rp.total_photon_dist(m1, v1, case["n_max"] - 1)
        worst = max(worst, float(np.max(np.abs(p[k] - ref))))
    rep.dev("marginals", worst, 1e-8)
    if worst > 1e-8:
        V("marginals", "not-the-state-marginal" + (":hbar" if hb != 2.0 else ""),
          "single-mode photon distribution differs from the state's by %.3g (hbar = %s)" % (worst, hb))
    # prob helper
    samples = [[0, 1], [1, 1], [0, 1], [2, 0]]
    if abs(utils.prob(samples, [0, 1]) - 0.5) > 1e-15:
        V("qchem.prob", "definition", "relative frequency of [0, 1] in %s" % samples)


RUNNERS = {"embed": run_embed, "vgbs": run_vgbs, "similarity": run_similarity, "vibronic": run_vibronic,
           "duschinsky": run_duschinsky, "dynamics": run_dynamics, "marginals": run_marginals}


def run_case(case, rep):
    def V(locus, kind, what):
        rep.violation(locus, kind, what, case)

    RUNNERS[case["kind"]](case, rep, V)


def plan(tier, seed, scale=1.0):
    n = int((14 if tier == "quick" else 260) * scale)
    return [{"n": n, "timeout": 3000} for _ in range(16)]


def run_shard(shard, rep):
    setup_paths()
    import warnings

    warnings.filterwarnings("ignore")
    rng = np.random.default_rng([shard["seed"], shard["id"], 20])
    kinds = ["vgbs", "similarity", "vibronic", "dynamics", "duschinsky", "marginals", "embed"]
    gens = {"vgbs": gen_vgbs_case, "similarity": gen_graph_case, "vibronic": gen_vibronic_case,
            "dynamics": gen_dynamics_case, "duschinsky": gen_duschinsky_case, "marginals": gen_marginals_case}
    for i in range(shard["n"]):
        # the first few cases of every shard cycle through the families so that even the quick tier reaches all monitors
        if i < len(kinds) and kinds[i] in gens:
            if kinds[i] == "vgbs":
                case = gen_vgbs_case(rng, thr=bool((shard["id"] + i) % 2))
                case["sample_calls"] = shard["id"] % 4 == 0
            else:
                case = gens[kinds[i]](rng)
        else:
            case = gen_case(rng)
        try:
            run_case(case, rep)
            rep.observe("calls:" + case["kind"])
            if i % 37 == 3 and len(rep.samples) < 4:
                rep.samples.append(case)
        except Exception as e:
            import traceback

            tb = traceback.extract_tb(e.__traceback__)
            where = "%s:%s" % (tb[-1].filename.split("/")[-1], tb[-1].name) if tb else "?"
            rep.violation(case["kind"], "unexpected-exception:%s" % type(e).__name__,
                          "%s: %s at %s" % (type(e).__name__, str(e)[:200], where), case)


def replay(case, rep):
    setup_paths()
    run_case(case, rep)
