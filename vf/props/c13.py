"""C13 — a time-domain program means its explicit loop, however it is unrolled.

Oracle: the harness writes the loop out by hand on RefGauss with a *fresh mode for every pulse* (independent of
TDMProgram's own unrolling).  The real engine runs the register-shifting unrolled program on the gaussian backend
under a scripted RNG; every homodyne event hands (mean, variance) of the next outcome - given the scripted
previous ones - to numpy.random, and this chain of conditionals must equal the chain derived from the explicit
loop (equality of the joint state of all measured pulses restricted to what the measurements can see, for any
number of shots).  Single-band programs: space_unroll + shots=None must return exactly the explicit-loop joint
state (with and without crop).  roll() must restore circuit and register exactly; Result.samples[shot, band, bin]
must be the outcome of that pulse (scripted outcomes are unique numbers per pulse).
"""
import numpy as np

from ..common import setup_paths, rnd
from ..instrument import RandomTap, CommandTap
from .. import refgauss as rg

PROPERTY = "C13"
RULE = ("seeded single- and multi-band TDM programs: N in {[2], [3], [4], [2,2], [1,3], [2,3]}, gates from {Sgate, Rgate, BSgate, "
        "LossChannel, Dgate} with 1-3 per-time-bin parameter arrays of 2-8 bins (incl. zeros), homodyne at per-bin angles on the "
        "leading mode of each band, shots in {1, 2, 3}; call histories of unroll / space_unroll / roll / run / compile with "
        "snapshots after each call. non-trivial = >= 1 beamsplitter couples consecutive pulses with non-zero angle and the program "
        "has >= 3 time bins; distinct = rounded program + shots + unroll kind.")
ASSUMPTIONS = [
    "the explicit loop is simulated by RefGauss with one mode per pulse; homodyne uses the finite-squeezing model the gaussian "
    "backend documents (eps = 2e-4), tolerance 1e-7",
    "only the default shift is exercised; photon-counting TDM programs inherit the recorded gaussian measure_fock finding and are "
    "not generated",
]
REQUIRED_MONITORS = ["chain:conditional-distribution", "layout:samples", "space-unroll:joint-state", "roll:restores", "history:calls",
                     "history:rerun-equals-fresh", "padding:vacuum-before-crop", "padding:get_crop_value-agrees"]

NS = [[2], [3], [4], [2, 2], [1, 3], [2, 3]]


def load():
    setup_paths()
    import strawberryfields as sf
    from strawberryfields import ops

    return {"sf": sf, "ops": ops}


def gen_case(rng):
    N = [list(x) for x in NS][int(rng.integers(len(NS)))]
    nb = int(rng.integers(2, 9))
    nparams = int(rng.integers(1, 4))
    arrs = []
    for k in range(nparams):
        a = rng.uniform(-1.0, 1.0, nb)
        if rng.random() < 0.3:
            a[rng.integers(nb)] = 0.0
        if rng.random() < 0.15:
            a[: int(rng.integers(1, nb))] = 0.0
        arrs.append([float(x) for x in a])
    starts = [sum(N[:i]) for i in range(len(N))]
    cmds = []
    tot = sum(N)
    # per band: squeeze the last mode, couple neighbours, rotate, measure the leading mode
    for b, n in enumerate(N):
        s0 = starts[b]
        last = s0 + n - 1
        cmds.append({"op": "Sgate", "p": [float(rng.uniform(0.3, 0.9)), {"par": int(rng.integers(nparams))} if rng.random() < 0.5 else 0.0], "m": [last]})
        for j in range(n - 1, 0, -1):
            if rng.random() < 0.85:
                cmds.append({"op": "BSgate", "p": [{"par": int(rng.integers(nparams))}, float(rng.choice([0.0, np.pi / 2, 0.3]))],
                             "m": [s0 + j - 1, s0 + j]})
            if rng.random() < 0.4:
                cmds.append({"op": "Rgate", "p": [{"par": int(rng.integers(nparams))}], "m": [s0 + j]})
        if rng.random() < 0.3:
            cmds.append({"op": "LossChannel", "p": [float(rng.uniform(0.5, 0.95))], "m": [last]})
        if rng.random() < 0.3:
            cmds.append({"op": "Dgate", "p": [float(rng.uniform(0.1, 0.5)), {"par": int(rng.integers(nparams))}], "m": [last]})
    if len(N) > 1 and rng.random() < 0.6:
        cmds.append({"op": "BSgate", "p": [float(rng.uniform(0.2, 1.0)), 0.0], "m": [starts[0] + N[0] - 1, starts[1] + N[1] - 1]})
    # (the measurements of the bands are written in any order, not only first band first)
    border = list(range(len(N)))
    if len(N) > 1 and rng.random() < 0.5:
        border = border[::-1]
    for b in border:
        cmds.append({"op": "MeasureHomodyne", "p": [{"par": int(rng.integers(nparams))} if rng.random() < 0.6 else float(rng.choice([0.0, np.pi / 2]))],
                     "m": [starts[b]]})
    return {"N": N, "arrays": arrs, "cmds": cmds, "shots": int(rng.choice([1, 1, 2, 3])),
            "mode": str(rng.choice(["run", "run", "run-unrolled", "space", "space-crop", "history", "history"]))}


def build(env, case):
    sf, ops = env["sf"], env["ops"]
    N = case["N"]
    prog = sf.TDMProgram(N=N if len(N) > 1 else N[0])
    with prog.context(*case["arrays"]) as (p, q):
        for c in case["cmds"]:
            args = [p[x["par"]] if isinstance(x, dict) else x for x in c["p"]]
            op = getattr(ops, c["op"])(*args)
            regs = tuple(q[i] for i in c["m"])
            op | (regs if len(regs) > 1 else regs[0])
    return prog


def outcome(t, band):
    return round(0.11 * ((7 * t + 3 * band) % 13) - 0.6 + 0.013 * t, 6)


class ExplicitLoop:
    """The loop written out by hand with a fresh mode per pulse."""

    def __init__(self, case, condition=True):
        self.case = case
        N = case["N"]
        self.N = N
        self.nb = len(case["arrays"][0])
        self.T = self.nb * (case["shots"] if condition else 1)
        self.starts = [sum(N[:i]) for i in range(len(N))]
        # pulse (band b, index k) -> reference mode
        self.per_band = [self.T + n - 1 for n in N]
        self.offset = [sum(self.per_band[:b]) for b in range(len(N))]
        self.g = rg.GState(sum(self.per_band))
        self.condition = condition
        self.pred = []  # (t, band, mean, var, phi)

    def mode(self, pos, t):
        """Register position -> reference mode at global step t."""
        for b, n in enumerate(self.N):
            if self.starts[b] <= pos < self.starts[b] + n:
                return self.offset[b] + t + (pos - self.starts[b])
        raise IndexError(pos)

    def band_of(self, pos):
        for b, n in enumerate(self.N):
            if self.starts[b] <= pos < self.starts[b] + n:
                return b

    def run(self):
        arrs = self.case["arrays"]
        for t in range(self.T):
            i = t % self.nb
            for c in self.case["cmds"]:
                p = [arrs[x["par"]][i] if isinstance(x, dict) else x for x in c["p"]]
                modes = [self.mode(m, t) for m in c["m"]]
                if c["op"] == "MeasureHomodyne":
                    band = self.band_of(c["m"][0])
                    mean, var = self.g.homodyne_dist(modes[0], p[0])
                    self.pred.append((t, band, mean, var, p[0]))
                    if self.condition:
                        self.g.condition_homodyne(modes[0], p[0], outcome(t, band), eps=0.0002)
                else:
                    rg.apply_op(self.g, c["op"], p, modes, False, 2.0)
        return self


def prog_snapshot(prog):
    return (tuple((id(c), type(c.op).__name__, tuple(str(x) for x in c.op.p), tuple(r.ind for r in c.reg)) for c in prog.circuit),
            tuple(r.ind for r in prog.register), prog.init_num_subsystems, prog.num_subsystems,
            tuple(tuple(a) for a in prog.tdm_params), prog.timebins)


def nontrivial(case):
    nb = len(case["arrays"][0])
    bs = [c for c in case["cmds"] if c["op"] == "BSgate" and isinstance(c["p"][0], dict)]
    return nb >= 3 and any(any(abs(v) > 1e-9 for v in case["arrays"][c["p"][0]["par"]]) for c in bs)


def run_case(case, rep, env):
    sf, ops = env["sf"], env["ops"]
    V = lambda locus, kind, what, detail=None: rep.violation(locus, kind, what, case, detail)
    mode = case["mode"]
    rep.case([rnd({k: case[k] for k in ("N", "arrays", "cmds")}, 5), case["shots"], mode], nontrivial(case),
             sample=case if rep.evaluations % 41 == 3 else None)
    rep.seen("program-shapes", "N=%s bins=%d shots=%d %s" % (case["N"], len(case["arrays"][0]), case["shots"], mode))
    prog = build(env, case)
    rolled_snap = prog_snapshot(prog)

    if mode in ("run", "run-unrolled"):
        shots = case["shots"]
        ref = ExplicitLoop(case).run()
        if mode == "run-unrolled":
            prog.unroll(shots=shots)
        events = []
        state = {"k": 0}
        cur = {}

        def pre(op, reg, backend, kwargs):
            if isinstance(op, ops.Measurement):
                cur["phi"] = op.p[0]

        def script(name, a, k, real):
            if name == "np.random.multivariate_normal":
                mean, cov = np.asarray(a[0], dtype=float), np.asarray(a[1], dtype=float)
                kk = state["k"]
                state["k"] += 1
                t, band = ref.pred[kk][0], ref.pred[kk][1] if kk < len(ref.pred) else (kk, 0)
                events.append((mean[0], cov[0, 0]))
                size = k.get("size", a[2] if len(a) > 2 else None)
                vec = np.array([outcome(t, band), 0.1])
                return vec if size is None else np.array([vec] * int(size))
            if name == "np.random.normal":
                return 0.05
            return NotImplemented

        tap = CommandTap()
        tap.pre.append(pre)
        eng = sf.Engine("gaussian")
        try:
            with RandomTap(script), tap:
                res = eng.run(prog, shots=shots)
        except Exception as e:
            V("TDMProgram.run", "exception:" + type(e).__name__, "running the TDM program raised %s: %s" % (type(e).__name__, str(e)[:150]))
            return
        rep.monitor("chain:conditional-distribution")
        if len(events) != len(ref.pred):
            V("TDMProgram.unroll", "measurement-count", "%d homodyne events observed, the explicit loop has %d measured pulses" % (len(events), len(ref.pred)))
            return
        for kk, ((m_got, v_got), (t, band, m_ref, v_ref, phi)) in enumerate(zip(events, ref.pred)):
            v_ref = v_ref + 0.0002 ** 2
            d = max(abs(m_got - m_ref), abs(v_got - v_ref))
            rep.dev("chain.deviation", d, 1e-7)
            if d > 1e-7 * (1 + abs(m_ref) + v_ref):
                V("TDMProgram.unroll", "conditional-distribution", "measurement #%d (step %d, band %d): the unrolled execution draws from "
                  "N(%.8f, %.8f), the explicit loop with a fresh mode per pulse gives N(%.8f, %.8f) given the same previous outcomes" % (
                      kk, t, band, m_got, v_got, m_ref, v_ref))
                return
        # layout
        rep.monitor("layout:samples")
        nb = len(case["arrays"][0])
        samples = np.asarray(res.samples)
        exp = np.zeros((shots, len(case["N"]), nb))
        for (t, band, *_rest) in ref.pred:
            exp[t // nb, band, t % nb] = outcome(t, band)
        if samples.shape != exp.shape:
            V("Engine.samples", "tdm-layout-shape", "Result.samples has shape %s, expected (shots, bands, bins) = %s" % (samples.shape, exp.shape))
            return
        if np.max(np.abs(samples - exp)) > 1e-9:
            bad = np.argwhere(np.abs(samples - exp) > 1e-9)[0]
            V("Engine.samples", "tdm-layout", "Result.samples%s = %.6f but the outcome of that pulse was %.6f" % (
                tuple(bad), samples[tuple(bad)], exp[tuple(bad)]))
            return
        # the user's program is back in its rolled form (received rolled) / untouched otherwise
        rep.monitor("roll:restores")
        if mode == "run":
            if prog_snapshot(prog) != rolled_snap:
                V("TDMProgram.roll", "not-restored-after-run", "after run the program is not in the state it was handed over in")
        return

    if mode in ("space", "space-crop"):
        if len(case["N"]) != 1:
            rep.observe("space-unroll-skipped:multi-band")
            return
        crop = mode == "space-crop"
        ref = ExplicitLoop(case, condition=False).run()
        nb = len(case["arrays"][0])
        eng = sf.Engine("gaussian")
        try:
            res = eng.run(prog, shots=None, space_unroll=True, crop=crop)
        except Exception as e:
            V("TDMProgram.space_unroll", "exception:" + type(e).__name__, "space-unrolled run raised %s: %s" % (type(e).__name__, str(e)[:150]))
            return
        rep.monitor("space-unroll:joint-state")
        st = res.state
        first = 0
        if st is None:
            # every pulse was cropped: they must all be in vacuum
            mu0, V0 = ref.g.reduced(list(range(nb)))
            if not crop or np.max(np.abs(V0 - np.eye(2 * nb))) > 1e-9 or np.max(np.abs(mu0)) > 1e-9:
                V("TDMProgram.space_unroll", "no-state-returned", "the space-unrolled run returned no state although not all pulses are in vacuum")
            return
        if crop:
            # documented: vacuum pulses before the first non-zero beamsplitter arrive are cropped
            first = nb - st.num_modes
        mu_ref, V_ref = ref.g.reduced(list(range(first, nb)))
        mu, Vv = np.asarray(st.means()), np.asarray(st.cov())
        if mu.shape != mu_ref.shape:
            V("TDMProgram.space_unroll", "state-size", "space-unrolled state has %d modes, expected %d" % (st.num_modes, nb - first))
            return
        d = max(np.max(np.abs(mu - mu_ref)), np.max(np.abs(Vv - V_ref)))
        rep.dev("space-unroll.deviation", d, 1e-8)
        if d > 1e-8 * (1 + np.max(np.abs(V_ref))):
            V("TDMProgram.space_unroll", "joint-state" + (":crop" if crop else ""), "the space-unrolled state differs from the explicit-loop "
              "joint state of the pulses by %.3e" % d)
            return
        if crop and first > 0:
            mu0, V0 = ref.g.reduced(list(range(first)))
            if np.max(np.abs(V0 - np.eye(2 * first))) > 1e-9 or np.max(np.abs(mu0)) > 1e-9:
                V("TDMProgram.get_crop_value", "cropped-non-vacuum", "%d leading pulses were cropped but they are not in vacuum" % first)
        return

    # history of calls
    rep.monitor("history:calls")
    rng = np.random.default_rng(case.get("hseed", 0))
    calls = []
    for _ in range(int(rng.integers(2, 11))):
        c = str(rng.choice(["unroll", "unroll2", "space", "roll", "roll", "run"]))
        calls.append(c)
        try:
            if c == "unroll":
                prog.unroll(shots=1)
            elif c == "unroll2":
                prog.unroll(shots=2)
            elif c == "space":
                if len(case["N"]) == 1:
                    prog.space_unroll(shots=1)
            elif c == "roll":
                prog.roll()
                rep.monitor("roll:restores")
                if prog_snapshot(prog) != rolled_snap:
                    V("TDMProgram.roll", "not-restored", "after %s the rolled program differs from the original (circuit / register / "
                      "parameter arrays)" % calls)
                    return
            else:
                np.random.seed(1)
                sf.Engine("gaussian").run(prog, shots=1)
        except ValueError as e:
            rep.observe("history.ValueError:" + c)  # documented: must be rolled before switching the unroll kind
        except Exception as e:
            kind = "history-exception:" + type(e).__name__
            if c == "run" and prog.space_unrolled_circuit is not None and isinstance(e, IndexError):
                # mechanism of the recorded finding: reshape_samples assumes the register-shifting sample layout
                kind = "run-of-space-unrolled-program-with-shots:IndexError"
            V("TDMProgram." + c, kind, "call sequence %s raised %s: %s" % (calls, type(e).__name__, str(e)[:120]))
            return
    prog.roll()
    if prog_snapshot(prog) != rolled_snap:
        V("TDMProgram.roll", "not-restored", "after %s + roll the program differs from the original" % calls)
        return
    rep.seen("call-histories", "-".join(calls))
    # the program must still *mean* the same: same samples as a freshly built program under the same random stream
    try:
        np.random.seed(5)
        s1 = np.asarray(sf.Engine("gaussian").run(prog, shots=1).samples)
        np.random.seed(5)
        s2 = np.asarray(sf.Engine("gaussian").run(build(env, case), shots=1).samples)
        rep.monitor("history:rerun-equals-fresh")
        if s1.shape != s2.shape or np.max(np.abs(s1 - s2)) > 1e-9:
            V("TDMProgram.run", "history-changes-meaning", "after %s the program returns different samples than a freshly built one "
              "under the same random stream" % calls)
    except Exception as e:
        V("TDMProgram.run", "history-exception:" + type(e).__name__, "run after %s raised %s: %s" % (calls, type(e).__name__, str(e)[:120]))


# ---------------------------------------------------------------------------------------------------------------------
# vacuum_padding (tdm/utils.py): multi-loop single-band programs built from padded argument lists
# ---------------------------------------------------------------------------------------------------------------------

def gen_padding_case(rng):
    delays = [list(x) for x in ([1], [1, 2], [2, 1], [1, 2, 3], [2, 3], [1, 3, 2])][int(rng.integers(6))]
    L = int(rng.integers(3, 8))
    S = [float(x) for x in rng.uniform(0.3, 0.9, L)]
    if rng.random() < 0.2:
        S[0] = 0.0
    loops = {}
    for i, d in enumerate(delays):
        bs = [float(x) for x in rng.uniform(0.25, 1.3, L)]
        r = rng.random()
        if r < 0.45:
            for j in range(min(L, int(rng.integers(1, d + 3)))):
                bs[j] = 0.0
        elif r < 0.55:
            bs = [0.0] * L
        elif r < 0.7:
            bs[int(rng.integers(1, L))] = 0.0
        loops[i] = {"Rgate": [float(x) for x in rng.uniform(-1, 1, L)], "BSgate": bs}
    return {"mode": "padding", "delays": delays, "Sgate": S, "loops": loops}


def run_padding_case(case, rep, env):
    """The argument lists returned by vacuum_padding, run as a time-domain program on loops with the given delays (explicit
    loop, one reference mode per pulse): the first `crop` pulses that reach the detector are vacuum (cropping them loses
    nothing), all lists have one length and contain the user's values unchanged between zeros, the input is not modified, and
    TDMProgram.get_delays() / get_crop_value() of that program agree with the delays and the crop value of the padding."""
    sf, ops = env["sf"], env["ops"]
    from strawberryfields.tdm.utils import vacuum_padding

    V = lambda locus, kind, what: rep.violation(locus, kind, what, case)
    delays = case["delays"]
    loops = {int(k): v for k, v in case["loops"].items()}
    args = {"Sgate": list(case["Sgate"]), "loops": {k: {"Rgate": list(v["Rgate"]), "BSgate": list(v["BSgate"])} for k, v in loops.items()}}
    import copy

    before = copy.deepcopy(args)
    rep.case(["padding", delays, rnd(case["Sgate"], 5), rnd(case["loops"], 5)], True)
    rep.monitor("padding:called")
    try:
        out = vacuum_padding(args, delays)
    except Exception as e:
        V("vacuum_padding", "exception:" + type(e).__name__, "vacuum_padding raised %s: %s" % (type(e).__name__, str(e)[:120]))
        return
    if args != before:
        V("vacuum_padding", "modifies-input", "vacuum_padding changed the dictionary it was given")
        return
    lists = [out["Sgate"]] + [out["loops"][i][g] for i in sorted(loops) for g in ("Rgate", "BSgate")]
    T = len(lists[0])
    if any(len(x) != T for x in lists):
        V("vacuum_padding", "unequal-lengths", "padded lists have lengths %s" % [len(x) for x in lists])
        return
    # the user's values must appear unchanged and contiguously, loop i shifted by the arrival time at that loop
    for name, orig, padded in [("Sgate", case["Sgate"], out["Sgate"])] + [("loop %d %s" % (i, g), loops[i][g], out["loops"][i][g])
                                                                           for i in sorted(loops) for g in ("Rgate", "BSgate")]:
        L = len(orig)
        offs = [k for k in range(T - L + 1) if list(padded[k:k + L]) == list(orig) and not any(padded[:k]) and not any(padded[k + L:])]
        if not offs:
            V("vacuum_padding", "values-changed", "%s: %s is not the input %s between zeros" % (name, rnd(padded, 4), rnd(orig, 4)))
            return
    crop = int(out["crop"])
    n = sum(delays)
    cmds = [{"op": "Sgate", "p": [{"par": 0}, 0.0], "m": [n]}]
    arrays = [list(map(float, out["Sgate"]))]
    a = n
    for i, d in enumerate(delays):
        b = a - d
        arrays += [list(map(float, out["loops"][i]["Rgate"])), list(map(float, out["loops"][i]["BSgate"]))]
        cmds.append({"op": "Rgate", "p": [{"par": 1 + 2 * i}], "m": [a]})
        cmds.append({"op": "BSgate", "p": [{"par": 2 + 2 * i}, float(np.pi / 2)], "m": [b, a]})
        a = b
    cmds.append({"op": "MeasureHomodyne", "p": [0.0], "m": [0]})
    tcase = {"N": [n + 1], "arrays": arrays, "cmds": cmds, "shots": 1}
    ref = ExplicitLoop(tcase, condition=False).run()
    g = ref.g
    nbar = [g.mean_photon(ref.offset[0] + t) for t in range(T)]
    rep.monitor("padding:vacuum-before-crop")
    lead = [t for t in range(min(crop, T)) if nbar[t] > 1e-12]
    if lead or crop > T:
        V("vacuum_padding", "crop-too-large", "crop = %d, but the pulses %s that reach the detector before it carry light (mean photon "
          "numbers %s)" % (crop, lead, np.round([nbar[t] for t in lead], 6).tolist()))
        return
    # (not judged: whether pulse `crop` itself carries light - zeros in the middle of a beamsplitter list, or a later loop that
    # holds the first pulse back, can delay the first light further; and how much light is still inside a loop when the lists
    # end depends on the user's last beamsplitter values.  Both are counted.)
    if crop < T and case["Sgate"][0] != 0:
        rep.observe("padding.first-light-%s" % ("at-crop" if nbar[crop] > 1e-12 else "after-crop"))
    injected = float(sum(np.sinh(x) ** 2 for x in case["Sgate"]))
    rep.observe("padding.light-left-in-loops-at-the-end" if abs(injected - float(sum(nbar))) > 1e-9 * (1 + injected) else "padding.loops-empty-at-the-end")
    # the program's own crop computation must agree
    prog = build(env, tcase)
    rep.monitor("padding:get_crop_value-agrees")
    try:
        c2 = int(prog.get_crop_value())
        d2 = [int(x) for x in prog.get_delays()]
    except Exception as e:
        V("TDMProgram.get_crop_value", "exception:" + type(e).__name__, "%s: %s" % (type(e).__name__, str(e)[:120]))
        return
    if d2 != list(delays):
        V("TDMProgram.get_delays", "wrong-delays", "get_delays() = %s for loops with delays %s" % (d2, delays))
    elif c2 != crop:
        V("TDMProgram.get_crop_value", "disagrees-with-vacuum_padding", "get_crop_value() = %d, vacuum_padding reported crop = %d (delays %s)" % (
            c2, crop, delays))


def plan(tier, seed, scale=1.0):
    n = int((200 if tier == "quick" else 12000) * scale)
    return [{"n": n, "timeout": 6000} for _ in range(16)]


def run_shard(shard, rep):
    env = load()
    rng = np.random.default_rng([shard["seed"], shard["id"], 13])
    for i in range(shard["n"]):
        if i % 8 == 7:
            case = gen_padding_case(rng)
            try:
                run_padding_case(case, rep, env)
            except Exception as e:
                rep.error("run_padding_case", e)
            continue
        case = gen_case(rng)
        case["hseed"] = int(rng.integers(2 ** 31))
        try:
            run_case(case, rep, env)
        except Exception as e:
            rep.error("run_case:" + case["mode"], e)


def replay(case, rep):
    if case.get("mode") == "padding":
        return run_padding_case(case, rep, load())
    run_case(case, rep, load())
