"""C19 — GBS application helpers are combinatorially exact and structurally sound.

Monitors: postconditions evaluated on every return of the real functions in apps.similarity / clique /
subgraph / sample, with the selection RNG tapped (RandomTap, script mode: the harness decides which
candidate is drawn, so ties are actually exercised, and the distribution arguments handed to the RNG are
inspected).  Oracles: exact integer arithmetic (math.factorial), the harness's own partition enumerator,
brute-force adjacency checks, and a *reachability* oracle for the greedy routines: the returned node set
must be producible by the documented selection rule (searched over all orders of the added / removed
nodes), which is decided purely from inputs and outputs.
"""
import itertools
import math
from fractions import Fraction

import numpy as np

from ..common import setup_paths
from ..instrument import RandomTap

PROPERTY = "C19"
RULE = ("seeded inputs: photon numbers 1-40, mode counts 1-400 (dense around 20-30, 165-175 and >170), samples; "
        "random graphs of 3-12 nodes (Erdos-Renyi at several densities, complete, empty, path, star; contiguous and "
        "shuffled non-contiguous integer labels), seed subgraphs / cliques, weight vectors with ties, all selection "
        "modes, scripted RNG picks (first / last / random candidate). non-trivial = cardinality call with >= 2 distinct "
        "counts, or a greedy call in which at least one selection step had >= 2 candidates or moved >= 1 node; "
        "distinct = (function, rounded inputs).")
ASSUMPTIONS = [
    "node labels are integers (documented input domain); graphs are simple and undirected",
    "reachability oracle enumerates orders of the added/removed nodes (<= 7 nodes per call, larger calls are only "
    "checked structurally)",
    "NetworkX is trusted only for adjacency lookups",
]
REQUIRED_MONITORS = ["orbits", "orbit_cardinality", "event_cardinality", "conversions", "event_to_sample.weights",
                     "grow", "swap", "shrink", "clique.search", "c_0", "c_1", "resize", "subgraph.search",
                     "sample.helpers", "clique.search:selection-rule", "feature_vectors(sampling)"]


# ---- harness-side reference implementations ------------------------------------------------------

def partitions(n, maxpart=None):
    if maxpart is None:
        maxpart = n
    if n == 0:
        yield []
        return
    for k in range(min(n, maxpart), 0, -1):
        for rest in partitions(n - k, k):
            yield [k] + rest


def exact_orbit_card(orbit, modes):
    sample = list(orbit) + [0] * (modes - len(orbit))
    cnt = {}
    for s in sample:
        cnt[s] = cnt.get(s, 0) + 1
    c = math.factorial(modes)
    for v in cnt.values():
        c //= math.factorial(v)
    return c


def exact_event_card(n, maxc, modes):
    return sum(exact_orbit_card(p, modes) for p in partitions(n) if max(p) <= maxc and len(p) <= modes)


def adj(graph, a, b):
    return graph.has_edge(a, b)


def is_clique_bf(graph, nodes):
    nodes = list(nodes)
    return all(adj(graph, a, b) for a, b in itertools.combinations(nodes, 2))


def c0_bf(graph, clique):
    cl = set(clique)
    return sorted(n for n in graph.nodes if n not in cl and all(adj(graph, n, c) for c in cl))


def c1_bf(graph, clique):
    cl = set(clique)
    out = []
    for n in graph.nodes:
        if n in cl:
            continue
        non = [c for c in cl if not adj(graph, n, c)]
        if len(non) == 1:
            out.append((non[0], n))
    return sorted(out)


def deg_in(graph, nodes, n):
    return sum(1 for m in nodes if m != n and adj(graph, n, m))


def score_sets(graph, cands, mode, w, maximize=True):
    """Members of cands allowed by the documented rule for `mode`."""
    cands = list(cands)
    if not cands:
        return []
    if mode == "uniform":
        return cands
    if mode == "degree":
        vals = [graph.degree(n) for n in cands]
    else:
        vals = [w[n] for n in cands]
    best = max(vals) if maximize else min(vals)
    return [c for c, v in zip(cands, vals) if v == best]


def grow_reachable(graph, start, result, mode, w):
    added = list(set(result) - set(start))
    if len(added) > 7:
        return None
    for order in itertools.permutations(added):
        cur = set(start)
        ok = True
        for n in order:
            allowed = score_sets(graph, c0_bf(graph, cur), mode, w)
            if n not in allowed:
                ok = False
                break
            cur.add(n)
        if ok:
            return True
    return False


def shrink_reachable(graph, start, result, mode, w):
    removed = list(set(start) - set(result))
    if len(removed) > 7:
        return None
    for order in itertools.permutations(removed):
        cur = set(start)
        ok = True
        for n in order:
            if is_clique_bf(graph, cur):  # must have stopped already
                ok = False
                break
            degs = {m: deg_in(graph, cur, m) for m in cur}
            dmin = min(degs.values())
            cands = [m for m in cur if degs[m] == dmin]
            if mode == "weight":
                wmin = min(w[m] for m in cands)
                cands = [m for m in cands if w[m] == wmin]
            if n not in cands:
                ok = False
                break
            cur.remove(n)
        if ok:
            return True
    return False


def search_results(graph, start, iterations, mode, w, cap=4000):
    """All cliques the documented local search (growth phase by the selection rule, then one swap by the selection rule,
    repeated `iterations` times or until grown == swapped) can return, over every way of settling ties.  None when more than
    `cap` intermediate states would have to be explored."""
    budget = [cap]
    grow_memo, swap_memo = {}, {}

    def grow_all(cur):
        if cur in grow_memo:
            return grow_memo[cur]
        budget[0] -= 1
        if budget[0] < 0:
            raise OverflowError
        allowed = score_sets(graph, c0_bf(graph, cur), mode, w)
        if not allowed:
            out = {cur}
        else:
            out = set()
            for n in allowed:
                out |= grow_all(cur | {n})
        grow_memo[cur] = out
        return out

    def swap_all(cl):
        if cl in swap_memo:
            return swap_memo[cl]
        pairs = c1_bf(graph, cl)
        if not pairs:
            out = {cl}
        else:
            allowed = set(score_sets(graph, [n for _, n in pairs], mode, w))
            out = {(cl - {c}) | {n} for c, n in pairs if n in allowed}
        swap_memo[cl] = out
        return out

    finals = set()
    seen = set()
    stack = [(frozenset(start), iterations)]
    try:
        while stack:
            cur, it = stack.pop()
            if (cur, it) in seen:
                continue
            seen.add((cur, it))
            budget[0] -= 1
            if budget[0] < 0:
                raise OverflowError
            for grown in grow_all(cur):
                for swapped in swap_all(grown):
                    if swapped == grown or it - 1 == 0:
                        finals.add(swapped)
                    else:
                        stack.append((swapped, it - 1))
    except OverflowError:
        return None
    return finals


def resize_chain_reachable(graph, chain, mode, w, growing):
    """chain: list of node sets, consecutive sizes; each step adds (growing) / removes one node by the rule."""
    for a, b in zip(chain, chain[1:]):
        a, b = set(a), set(b)
        if growing:
            if not (a < b and len(b) == len(a) + 1):
                return False, "not nested: %s -> %s" % (sorted(a), sorted(b))
            (n,) = b - a
            comp = [c for c in graph.nodes if c not in a]
            degs = {c: deg_in(graph, a | {c}, c) for c in comp}
            dmax = max(degs.values())
            cands = [c for c in comp if degs[c] == dmax]
            if mode == "weight":
                wmax = max(w[c] for c in cands)
                cands = [c for c in cands if w[c] == wmax]
            if n not in cands:
                return False, "added node %s is not among the documented candidates %s (from %s)" % (n, cands, sorted(a))
        else:
            if not (b < a and len(b) == len(a) - 1):
                return False, "not nested: %s -> %s" % (sorted(a), sorted(b))
            (n,) = a - b
            degs = {c: deg_in(graph, a, c) for c in a}
            dmin = min(degs.values())
            cands = [c for c in a if degs[c] == dmin]
            if mode == "weight":
                wmin = min(w[c] for c in cands)
                cands = [c for c in cands if w[c] == wmin]
            if n not in cands:
                return False, "removed node %s is not among the documented candidates %s (from %s)" % (n, cands, sorted(a))
    return True, ""


# ---- case generation -----------------------------------------------------------------------------

def gen_graph(rng):
    import networkx as nx

    n = int(rng.integers(3, 13))
    kind = str(rng.choice(["er", "er", "er", "complete", "empty", "path", "star", "barbell"]))
    if kind == "er":
        g = nx.gnp_random_graph(n, float(rng.choice([0.3, 0.5, 0.7, 0.9])), seed=int(rng.integers(2 ** 31)))
    elif kind == "complete":
        g = nx.complete_graph(n)
    elif kind == "empty":
        g = nx.empty_graph(n)
    elif kind == "path":
        g = nx.path_graph(n)
    elif kind == "star":
        g = nx.star_graph(n - 1)
    else:
        g = nx.barbell_graph(max(3, n // 2), 0)
    labels = str(rng.choice(["range", "shuffled", "sparse"]))
    if labels != "range":
        nn = g.number_of_nodes()
        if labels == "shuffled":
            new = [int(x) for x in rng.permutation(nn)]
        else:
            new = [int(x) for x in rng.choice(100, nn, replace=False)]
        g2 = nx.Graph()
        mapping = dict(zip(list(g.nodes), new))
        # insertion order of nodes deliberately differs from numeric order
        g2.add_nodes_from(new)
        g2.add_edges_from((mapping[a], mapping[b]) for a, b in g.edges)
        g = g2
    return g, kind, labels


def graph_spec(g):
    return {"nodes": [int(n) for n in g.nodes], "edges": [[int(a), int(b)] for a, b in g.edges]}


def graph_from_spec(s):
    import networkx as nx

    g = nx.Graph()
    g.add_nodes_from(s["nodes"])
    g.add_edges_from(s["edges"])
    return g


def random_clique(rng, g):
    nodes = list(g.nodes)
    cl = []
    for n in rng.permutation(len(nodes)):
        n = nodes[int(n)]
        if all(g.has_edge(n, c) for c in cl) and rng.random() < 0.7:
            cl.append(n)
        if len(cl) >= int(rng.integers(1, 5)):
            break
    return cl


def gen_select(rng, g):
    mode = str(rng.choice(["uniform", "degree", "weight"]))
    if mode == "weight":
        wl = [float(x) for x in rng.choice([0.5, 1.0, 1.0, 2.0, 3.0], g.number_of_nodes())]
        return mode, wl
    return mode, None


class Picker:
    """Scripted np.random.choice: picks first / last / random candidate; counts multi-candidate draws."""

    def __init__(self, rng, policy):
        self.rng, self.policy = rng, policy
        self.multi = 0
        self.draws = 0
        self.pvecs = []

    def __call__(self, name, a, k, real):
        if name == "np.random.choice":
            x = a[0]
            if "p" in k and k["p"] is not None:
                self.pvecs.append([float(v) for v in k["p"]])
            n = x if isinstance(x, (int, np.integer)) else len(x)
            self.draws += 1
            if n > 1:
                self.multi += 1
            if self.policy == "first":
                i = 0
            elif self.policy == "last":
                i = n - 1
            else:
                pv = k.get("p")
                i = int(self.rng.choice(n, p=pv)) if pv is not None else int(self.rng.integers(n))
            return i if isinstance(x, (int, np.integer)) else x[i]
        if name == "np.random.shuffle":
            x = a[0]
            perm = self.rng.permutation(len(x))
            x[:] = [x[int(i)] for i in perm]
            return None
        return NotImplemented


# ---- case execution ------------------------------------------------------------------------------

def run_case(case, rep, mods, rng):
    sim, clique, subgraph, sample = mods
    kind = case["kind"]
    V = lambda locus, k, what: rep.violation(locus, k, what, case)

    if kind == "orbits":
        n = case["n"]
        got = [list(o) for o in sim.orbits(n)]
        exp = [p for p in partitions(n)]
        rep.monitor("orbits")
        rep.case(["orbits", n], n >= 2)
        if sorted(map(tuple, got)) != sorted(map(tuple, exp)) or len(got) != len(set(map(tuple, got))):
            V("orbits", "enumeration", "orbits(%d) returned %d orbits, %d partitions exist; missing %s extra %s" % (
                n, len(got), len(exp), sorted(set(map(tuple, exp)) - set(map(tuple, got)))[:3],
                sorted(set(map(tuple, got)) - set(map(tuple, exp)))[:3]))
        return

    if kind == "orbit_card":
        orbit, modes = case["orbit"], case["modes"]
        got = sim.orbit_cardinality(list(orbit), modes)
        exp = exact_orbit_card(orbit, modes)
        rep.monitor("orbit_cardinality")
        rep.case(["oc", orbit, modes], len(set(orbit)) >= 2 or modes > len(orbit))
        rep.seen("cardinality-regime", "modes>170" if modes > 170 else ("exp>2^53" if exp > 2 ** 53 else "small"))
        if not isinstance(got, (int, np.integer)) or isinstance(got, bool):
            V("orbit_cardinality", "not-integer-type", "orbit_cardinality(%s, %d) returned %s %r; exact count %d" % (
                orbit, modes, type(got).__name__, got, exp))
        elif int(got) != exp:
            V("orbit_cardinality", "wrong-count", "orbit_cardinality(%s, %d) = %r, exact count is %d" % (
                orbit, modes, got, exp))
        return

    if kind == "event_card":
        n, maxc, modes = case["n"], case["maxc"], case["modes"]
        got = sim.event_cardinality(n, maxc, modes)
        exp = exact_event_card(n, maxc, modes)
        rep.monitor("event_cardinality")
        rep.case(["ec", n, maxc, modes], n >= 2)
        if not isinstance(got, (int, np.integer)):
            V("event_cardinality", "not-integer-type", "event_cardinality(%d,%d,%d) returned %s %r; exact %d" % (
                n, maxc, modes, type(got).__name__, got, exp))
        elif int(got) != exp:
            V("event_cardinality", "wrong-count", "event_cardinality(%d,%d,%d) = %r, exact count is %d" % (
                n, maxc, modes, got, exp))
        return

    if kind == "conversions":
        s = case["sample"]
        maxc = case["maxc"]
        rep.monitor("conversions")
        rep.case(["conv", s, maxc], sum(s) > 0)
        orb = sim.sample_to_orbit(list(s))
        if orb != sorted([x for x in s if x > 0], reverse=True):
            V("sample_to_orbit", "definition", "sample_to_orbit(%s) = %s" % (s, orb))
        ev = sim.sample_to_event(list(s), maxc)
        exp_ev = sum(s) if max(s) <= maxc else None
        if ev != exp_ev:
            V("sample_to_event", "definition", "sample_to_event(%s, %d) = %s expected %s" % (s, maxc, ev, exp_ev))
        pk = Picker(rng, "random")
        with RandomTap(pk):
            back = sim.orbit_to_sample(list(orb), len(s))
        if len(back) != len(s) or sorted(back) != sorted(s):
            V("orbit_to_sample", "not-in-orbit", "orbit_to_sample(%s, %d) = %s" % (orb, len(s), back))
        if sim.sample_to_orbit(list(back)) != orb:
            V("orbit_to_sample", "round-trip", "sample_to_orbit(orbit_to_sample(o)) != o for %s" % orb)
        if len(orb) > 0:
            try:
                sim.orbit_to_sample(list(orb), len(orb) - 1)
                V("orbit_to_sample", "accepts-too-few-modes", "no error for modes < len(orbit)")
            except ValueError:
                pass
        # ---- empirical feature vectors: relative frequencies of orbits / events in a list of samples ---------------------------
        rep.monitor("feature_vectors(sampling)")
        k = len(s)
        samples = [list(s)] + [[int(x) for x in rng.integers(0, 3, k)] for _ in range(int(rng.integers(3, 12)))]
        if rng.random() < 0.5:
            samples.append([int(x) for x in rng.permutation(s)])  # same orbit as s, other pattern
        orbs = [list(orb) if orb else [1], [1, 1], [2], [2, 1], [1]]
        orbs = [o for i, o in enumerate(orbs) if o not in orbs[:i]]
        exp = [sum(1 for t in samples if sorted([x for x in t if x > 0], reverse=True) == sorted(o, reverse=True)) / len(samples) for o in orbs]
        got = sim.feature_vector_orbits_sampling([list(t) for t in samples], [list(o) for o in orbs])
        if len(got) != len(exp) or any(abs(a - b) > 1e-12 for a, b in zip(got, exp)):
            V("feature_vector_orbits_sampling", "not-the-relative-frequencies", "orbits %s in %d samples: returned %s, counted %s" % (
                orbs, len(samples), got, exp))
        evs = sorted({sum(s), 1, 2, 3})
        exp = [sum(1 for t in samples if sum(t) == n_ and max(t) <= maxc) / len(samples) for n_ in evs]
        got = sim.feature_vector_events_sampling([list(t) for t in samples], list(evs), maxc)
        if len(got) != len(exp) or any(abs(a - b) > 1e-12 for a, b in zip(got, exp)):
            V("feature_vector_events_sampling", "not-the-relative-frequencies", "events %s (<= %d per mode) in %d samples: returned %s, counted %s" % (
                evs, maxc, len(samples), got, exp))
        return

    if kind == "event_to_sample":
        n, maxc, modes = case["n"], case["maxc"], case["modes"]
        rep.case(["e2s", n, maxc, modes], n >= 2)
        pk = Picker(rng, "random")
        feasible = maxc * modes >= n and maxc >= 0
        try:
            with RandomTap(pk):
                s = sim.event_to_sample(n, maxc, modes)
        except ValueError:
            if feasible:
                V("event_to_sample", "rejects-feasible", "ValueError for feasible (%d,%d,%d)" % (n, maxc, modes))
            return
        if not feasible:
            V("event_to_sample", "accepts-infeasible", "returned %s for infeasible (%d,%d,%d)" % (s, n, maxc, modes))
            return
        rep.monitor("event_to_sample.weights")
        if sum(s) != n or max(s) > maxc or len(s) != modes or min(s) < 0:
            V("event_to_sample", "not-in-event", "event_to_sample(%d,%d,%d) = %s" % (n, maxc, modes, s))
        if sim.sample_to_event(list(s), maxc) != n:
            V("event_to_sample", "round-trip", "sample_to_event(event_to_sample(...)) != photon number")
        # the orbit weights handed to the RNG must be the exact cardinality ratios (as a multiset)
        orbs = [p for p in partitions(n) if max(p) <= maxc and len(p) <= modes]
        cards = [exact_orbit_card(p, modes) for p in orbs]
        tot = sum(cards)
        exp_p = sorted(float(Fraction(c, tot)) for c in cards)
        if pk.pvecs:
            got_p = sorted(p for p in pk.pvecs[0] if p > 0)
            exp_pp = [p for p in exp_p if p > 0]
            if len(got_p) != len(exp_pp) or max(abs(a - b) for a, b in zip(got_p, exp_pp)) > 1e-9:
                V("event_to_sample", "orbit-weights", "weights handed to the RNG %s != cardinality ratios %s" % (
                    got_p[:6], exp_pp[:6]))
        else:
            V("event_to_sample", "orbit-weights", "no weighted draw observed")
        return

    # ---- graph routines ---------------------------------------------------------------------------
    g = graph_from_spec(case["graph"])
    mode = case.get("mode", "uniform")
    wl = case.get("weights")
    sel = wl if mode == "weight" else mode
    w = dict(zip(list(g.nodes), wl)) if wl else None
    pk = Picker(rng, case.get("policy", "random"))

    if kind in ("c_0", "c_1"):
        cl = case["clique"]
        rep.case([kind, case["graph"], cl], len(cl) >= 1)
        rep.monitor(kind)
        if kind == "c_0":
            got = sorted(clique.c_0(list(cl), g))
            if got != c0_bf(g, cl):
                V("c_0", "wrong-set", "c_0(%s) = %s, brute force %s" % (cl, got, c0_bf(g, cl)))
        else:
            got = sorted(tuple(x) for x in clique.c_1(list(cl), g))
            if got != c1_bf(g, cl):
                V("c_1", "wrong-set", "c_1(%s) = %s, brute force %s" % (cl, got, c1_bf(g, cl)))
        return

    if kind == "grow":
        cl = case["clique"]
        with RandomTap(pk):
            res = clique.grow(list(cl), g, node_select=sel)
        rep.monitor("grow")
        rep.case(["grow", case["graph"], cl, mode, wl, case.get("policy")], pk.multi > 0 or len(res) > len(cl))
        rep.observe("grow.multi-candidate-draws", pk.multi)
        if not set(res) <= set(g.nodes) or not is_clique_bf(g, res):
            V("grow", "not-a-clique", "grow(%s) = %s is not a clique of the graph" % (cl, res))
            return
        if not set(cl) <= set(res):
            V("grow", "not-superset", "grow(%s) = %s dropped nodes" % (cl, res))
            return
        if c0_bf(g, res):
            V("grow", "not-maximal", "grow(%s) = %s can still be grown by %s" % (cl, res, c0_bf(g, res)))
        if res != sorted(res):
            V("grow", "not-sorted", "result %s" % res)
        r = grow_reachable(g, cl, res, mode, w)
        if r is False:
            V("grow", "selection-rule", "grow(%s, %s) = %s cannot be produced by the documented %s rule" % (
                cl, mode, res, mode))
        return

    if kind == "swap":
        cl = case["clique"]
        with RandomTap(pk):
            res = clique.swap(list(cl), g, node_select=sel)
        rep.monitor("swap")
        c1 = c1_bf(g, cl)
        rep.case(["swap", case["graph"], cl, mode, wl, case.get("policy")], len(c1) >= 1)
        if not is_clique_bf(g, res) or not set(res) <= set(g.nodes):
            V("swap", "not-a-clique", "swap(%s) = %s is not a clique" % (cl, res))
            return
        if len(res) != len(set(cl)):
            V("swap", "size-changed", "swap(%s) = %s" % (cl, res))
            return
        if not c1:
            if sorted(res) != sorted(set(cl)):
                V("swap", "changed-without-candidates", "C1 empty but swap(%s) = %s" % (cl, res))
            return
        out = set(cl) - set(res)
        inn = set(res) - set(cl)
        if len(out) != 1 or len(inn) != 1:
            V("swap", "no-swap-with-candidates", "C1 = %s but swap(%s) = %s" % (c1, cl, res))
            return
        pair = (next(iter(out)), next(iter(inn)))
        allowed_in = score_sets(g, [p[1] for p in c1], mode, w)
        if pair not in c1 or pair[1] not in allowed_in:
            V("swap", "selection-rule", "swap(%s, %s) exchanged %s; documented candidates %s" % (
                cl, mode, pair, [p for p in c1 if p[1] in allowed_in]))
        return

    if kind == "shrink":
        sub = case["subgraph"]
        sel2 = wl if mode == "weight" else "uniform"
        with RandomTap(pk):
            res = clique.shrink(list(sub), g, node_select=sel2)
        rep.monitor("shrink")
        rep.case(["shrink", case["graph"], sub, mode, wl, case.get("policy")], len(res) < len(set(sub)))
        rep.observe("shrink.multi-candidate-draws", pk.multi)
        if not set(res) <= set(sub) or not is_clique_bf(g, res):
            V("shrink", "not-a-clique", "shrink(%s) = %s is not a clique inside the input" % (sub, res))
            return
        r = shrink_reachable(g, sub, res, "weight" if mode == "weight" else "uniform", w)
        if r is False:
            V("shrink", "selection-rule", "shrink(%s, %s) = %s cannot be produced by removing minimum-degree "
              "(then minimum-weight) nodes until a clique is left" % (sub, mode, res))
        return

    if kind == "clique_search":
        cl = case["clique"]
        with RandomTap(pk):
            res = clique.search(list(cl), g, case["iterations"], node_select=sel)
        rep.monitor("clique.search")
        rep.case(["csearch", case["graph"], cl, mode, wl, case["iterations"]], len(res) > len(cl) or pk.multi > 0)
        if not set(res) <= set(g.nodes) or not is_clique_bf(g, res):
            V("clique.search", "not-a-clique", "search(%s) = %s" % (cl, res))
        elif len(res) < len(set(cl)):
            V("clique.search", "shrunk", "search(%s) = %s is smaller than its seed" % (cl, res))
        # (maximality is not promised: the last step of search is a swap, after which growth may be possible)
        else:
            # the result must be one the documented search can return under the requested selection rule in *every*
            # iteration (all ways of settling ties explored)
            finals = search_results(g, cl, case["iterations"], mode if mode != "weight" else "weight", w)
            if finals is None:
                rep.observe("clique.search.rule-not-judged:state-space-above-cap")
            else:
                rep.monitor("clique.search:selection-rule")
                if case["iterations"] >= 2:
                    rep.observe("clique.search.rule-judged:iterations>=2:%s" % mode)
                if frozenset(res) not in finals:
                    V("clique.search", "selection-rule", "search(%s, iterations=%d, node_select=%s) = %s is not among the %d cliques "
                      "the documented growth / swap rule can produce (e.g. %s)" % (cl, case["iterations"], mode, sorted(res), len(finals),
                                                                                   sorted(sorted(f) for f in finals)[:3]))
        return

    if kind == "resize":
        sub, mn, mx = case["subgraph"], case["min"], case["max"]
        sel2 = wl if mode == "weight" else "uniform"
        with RandomTap(pk):
            res = subgraph.resize(list(sub), g, mn, mx, node_select=sel2)
        rep.monitor("resize")
        rep.case(["resize", case["graph"], sub, mn, mx, mode, wl, case.get("policy")], len(res) >= 2)
        rep.observe("resize.multi-candidate-draws", pk.multi)
        start = sorted(set(sub))
        if sorted(res.keys()) != list(range(mn, mx + 1)):
            V("resize", "sizes", "resize returned sizes %s for range [%d,%d]" % (sorted(res.keys()), mn, mx))
            return
        for k, nodes in res.items():
            if len(nodes) != k or len(set(nodes)) != k or not set(nodes) <= set(g.nodes) or list(nodes) != sorted(nodes):
                V("resize", "not-a-subset-of-size", "entry %d -> %s" % (k, nodes))
                return
        m2 = "weight" if mode == "weight" else "uniform"
        s0 = len(start)
        if mn <= s0 <= mx and res[s0] != start:
            V("resize", "start-changed", "entry for the starting size is %s, input %s" % (res[s0], start))
        # growth chain: start -> ... -> max ; only the suffix inside [mn,mx] is visible, so require
        # visibility of the whole chain (mn <= s0) to judge the rule; nesting is judged on what is visible
        if mx > s0:
            vis = [res[k] for k in range(max(mn, s0 + 1), mx + 1)]
            if mn <= s0 + 1:
                chain = [start] + vis
                ok, why = resize_chain_reachable(g, chain, m2, w, True)
                if not ok:
                    V("resize", "selection-rule" if "candidates" in why else "not-nested", "grow phase: " + why)
            else:
                for a, b in zip(vis, vis[1:]):
                    if not set(a) < set(b):
                        V("resize", "not-nested", "grow phase %s -> %s" % (a, b))
                if vis and not set(start) < set(vis[0]):
                    V("resize", "not-nested", "grow phase lost seed nodes: %s -> %s" % (start, vis[0]))
        if mn < s0:
            vis = [res[k] for k in range(min(mx, s0 - 1), mn - 1, -1)]
            if mx >= s0 - 1:
                chain = [start] + vis
                ok, why = resize_chain_reachable(g, chain, m2, w, False)
                if not ok:
                    V("resize", "selection-rule" if "candidates" in why else "not-nested", "shrink phase: " + why)
            else:
                for a, b in zip(vis, vis[1:]):
                    if not set(b) < set(a):
                        V("resize", "not-nested", "shrink phase %s -> %s" % (a, b))
                if vis and not set(vis[0]) < set(start):
                    V("resize", "not-nested", "shrink phase left the seed: %s -> %s" % (start, vis[0]))
        return

    if kind == "subgraph_search":
        subs, mn, mx, mc = case["subgraphs"], case["min"], case["max"], case["max_count"]
        sel2 = wl if mode == "weight" else "uniform"
        with RandomTap(pk):
            res = subgraph.search([list(s) for s in subs], g, mn, mx, max_count=mc, node_select=sel2)
        rep.monitor("subgraph.search")
        rep.case(["ssearch", case["graph"], subs, mn, mx, mc, mode, wl], len(subs) >= 2)
        if sorted(res.keys()) != list(range(mn, mx + 1)):
            V("subgraph.search", "sizes", "sizes %s for range [%d,%d]" % (sorted(res.keys()), mn, mx))
            return
        for k, lst in res.items():
            if len(lst) > mc or len(lst) < 1:
                V("subgraph.search", "max-count", "size %d has %d entries (max_count %d)" % (k, len(lst), mc))
            dens = [d for d, _ in lst]
            if dens != sorted(dens, reverse=True):
                V("subgraph.search", "not-sorted", "densities %s" % dens)
            seen = set()
            for d, nodes in lst:
                if len(nodes) != k or len(set(nodes)) != k or not set(nodes) <= set(g.nodes):
                    V("subgraph.search", "not-a-subset-of-size", "size %d entry %s" % (k, nodes))
                    continue
                e = sum(1 for a, b in itertools.combinations(nodes, 2) if adj(g, a, b))
                exp_d = (2.0 * e / (k * (k - 1))) if k > 1 else 0.0
                if abs(d - exp_d) > 1e-12:
                    V("subgraph.search", "density", "density %r reported for %s, 2E/(k(k-1)) = %r" % (d, nodes, exp_d))
                if tuple(nodes) in seen:
                    V("subgraph.search", "duplicate", "duplicate subgraph %s" % (nodes,))
                seen.add(tuple(nodes))
        return

    if kind == "sample_helpers":
        samples = case["samples"]
        rep.monitor("sample.helpers")
        rep.case(["sh", samples, case["graph"]], len(samples) >= 2)
        mn, mx = case["min"], case["max"]
        got = sample.postselect([list(s) for s in samples], mn, mx)
        exp = [list(s) for s in samples if mn <= sum(s) <= mx]
        if got != exp:
            V("postselect", "definition", "postselect(%s,%d,%d) = %s" % (samples, mn, mx, got))
        for s in samples:
            m = sample.modes_from_counts(list(s))
            e = sorted(i for i, c in enumerate(s) for _ in range(c))
            if m != e:
                V("modes_from_counts", "definition", "modes_from_counts(%s) = %s" % (s, m))
        subs = sample.to_subgraphs([list(s) for s in samples], g)
        nodes = list(g.nodes)
        for s, sub in zip(samples, subs):
            e = sorted(nodes[i] for i, c in enumerate(s) if c > 0)
            if sorted(sub) != e:
                V("to_subgraphs", "definition", "to_subgraphs(%s) over nodes %s = %s, expected %s" % (s, nodes, sub, e))
        return
    raise KeyError(kind)


def gen_case(rng):
    r = rng.random()
    if r < 0.04:
        return {"kind": "orbits", "n": int(rng.integers(1, 26))}
    if r < 0.22:
        n = int(rng.integers(1, 14))
        parts = list(partitions(n))
        orbit = parts[int(rng.integers(len(parts)))]
        regime = rng.random()
        if regime < 0.4:
            modes = int(rng.integers(len(orbit), len(orbit) + 12))
        elif regime < 0.7:
            modes = int(rng.integers(max(len(orbit), 18), 60))
        elif regime < 0.9:
            modes = int(rng.integers(max(len(orbit), 160), 182))
        else:
            modes = int(rng.integers(max(len(orbit), 171), 400))
        return {"kind": "orbit_card", "orbit": orbit, "modes": modes}
    if r < 0.3:
        n = int(rng.integers(1, 12))
        modes = int(rng.choice([3, 5, 8, 12, 25, 40, 100, 171, 200]))
        return {"kind": "event_card", "n": n, "maxc": int(rng.integers(1, 5)), "modes": modes}
    if r < 0.36:
        m = int(rng.integers(1, 10))
        s = [int(x) for x in rng.choice([0, 0, 0, 1, 1, 2, 3, 5], m)]
        return {"kind": "conversions", "sample": s, "maxc": int(rng.integers(1, 5))}
    if r < 0.42:
        return {"kind": "event_to_sample", "n": int(rng.integers(1, 10)), "maxc": int(rng.integers(1, 4)),
                "modes": int(rng.integers(1, 12))}
    g, gk, lab = gen_graph(rng)
    gs = graph_spec(g)
    mode, wl = gen_select(rng, g)
    policy = str(rng.choice(["first", "last", "random"]))
    base = {"graph": gs, "mode": mode, "weights": wl, "policy": policy, "gkind": gk, "labels": lab}
    nodes = list(g.nodes)
    if r < 0.47:
        return dict(base, kind=str(rng.choice(["c_0", "c_1"])), clique=[int(x) for x in random_clique(rng, g)])
    if r < 0.58:
        return dict(base, kind="grow", clique=[int(x) for x in random_clique(rng, g)])
    if r < 0.68:
        return dict(base, kind="swap", clique=[int(x) for x in random_clique(rng, g)])
    if r < 0.8:
        k = int(rng.integers(1, len(nodes) + 1))
        sub = [int(nodes[int(i)]) for i in rng.choice(len(nodes), k, replace=False)]
        if mode == "degree":
            base["mode"] = "uniform"
        return dict(base, kind="shrink", subgraph=sub)
    if r < 0.85:
        return dict(base, kind="clique_search", clique=[int(x) for x in random_clique(rng, g)],
                    iterations=int(rng.integers(1, 6)))
    if mode == "degree":
        base["mode"] = "uniform"
    nn = len(nodes)
    mx = int(rng.integers(1, nn))
    mn = int(rng.integers(1, mx + 1))
    if r < 0.95:
        k = int(rng.integers(1, nn + 1))
        sub = [int(nodes[int(i)]) for i in rng.choice(nn, k, replace=False)]
        return dict(base, kind="resize", subgraph=sub, min=mn, max=mx)
    if r < 0.98:
        subs = []
        for _ in range(int(rng.integers(1, 6))):
            k = int(rng.integers(1, nn + 1))
            subs.append([int(nodes[int(i)]) for i in rng.choice(nn, k, replace=False)])
        return dict(base, kind="subgraph_search", subgraphs=subs, min=mn, max=mx, max_count=int(rng.integers(1, 4)))
    samples = [[int(x) for x in rng.choice([0, 0, 1, 1, 2, 3], nn)] for _ in range(int(rng.integers(1, 6)))]
    return dict(base, kind="sample_helpers", samples=samples, min=int(rng.integers(0, 4)), max=int(rng.integers(3, 9)))


def load_mods():
    setup_paths()
    from strawberryfields.apps import similarity, clique, subgraph, sample

    return similarity, clique, subgraph, sample


def plan(tier, seed, scale=1.0):
    n = int((1600 if tier == "quick" else 40000) * scale)
    return [{"n": n, "timeout": 6000} for _ in range(16)]


def run_shard(shard, rep):
    mods = load_mods()
    rng = np.random.default_rng([shard["seed"], shard["id"], 19])
    for i in range(shard["n"]):
        case = gen_case(rng)
        case["pick_seed"] = int(rng.integers(2 ** 31))
        try:
            run_case(case, rep, mods, np.random.default_rng(case["pick_seed"]))
            rep.observe("calls:" + case["kind"])
            if i % 211 == 5:
                rep.samples.append(case) if len(rep.samples) < 4 else None
        except Exception as e:
            rep.violation(case["kind"], "unexpected-exception", "%s: %s" % (type(e).__name__, str(e)[:200]), case)


def replay(case, rep):
    mods = load_mods()
    run_case(case, rep, mods, np.random.default_rng(case.get("pick_seed", 0)))
