"""C09 — running programs is compositional and leaves user programs untouched.

Differential execution under a scripted RNG (outcomes fixed per (mode, occurrence), so programs with
measurements are deterministic): run([A, B]), run(A); run(B) and run(A ++ B) must end in the same state and
apply the same command stream (CommandTap); after reset the engine must behave like a fresh one; deep snapshots
of the user's Program (circuit list, command / operation identities, parameter entries by value and identity,
dagger flags, registers) are compared before/after run and compile; a second run on a fresh engine must give
the same result.  Fault sequence: a daggered gate whose _apply raises while applying (measured parameter used
before its measurement, unbound free parameter in p[1], failpoint injected at the backend boundary) must leave
the operation's parameters as they were.
"""
import copy

import numpy as np

from ..common import setup_paths, rnd
from ..instrument import RandomTap, CommandTap
from .. import gen

PROPERTY = "C09"
RULE = ("seeded pairs / triples of program fragments over 1-3 modes (Gaussian gates, dagger forms, decomposable operations, "
        "loss, homodyne measurements, feed-forward of measured values within and across fragments, free parameters), second "
        "fragments built with Program(parent); call patterns list / successive / concatenated / reset+rerun / compile-then-run "
        "/ rerun on a fresh engine / three segments in five segmentations (middle segment without measurement, feed-forward "
        "from the first into the third) / a second engine running (and resetting) the same program objects in between, on "
        "gaussian, fock and bosonic; plus fault sequences with a raising daggered gate. "
        "non-trivial = the second fragment acts on a state the first left non-vacuum and >= 1 daggered or decomposed "
        "operation is applied; distinct = rounded fragments + backend.")
ASSUMPTIONS = [
    "measurement outcomes are scripted at the numpy.random boundary per (mode, occurrence); documented side effects of a "
    "run (RegRef.val, Program.locked, bound free-parameter values) are not part of the snapshot",
    "fock comparisons at cutoff 6 with identical call sequences, so equality is exact (1e-9)",
]
REQUIRED_MONITORS = ["compose:list-vs-successive", "compose:vs-concatenated", "reset:like-fresh", "snapshot:run",
                     "snapshot:compile", "rerun:fresh-engine", "fault:p0-restored", "stream:equal",
                     "compose3:segmentations-agree", "interleave:other-engine-does-not-interfere",
                     "snapshot:compile:gaussian_unitary", "snapshot:compile:gaussian_merge"]

ONE = ["Dgate", "Sgate", "Rgate", "Xgate", "Zgate", "Pgate", "Fouriergate", "LossChannel"]
TWO = ["BSgate", "S2gate", "CXgate", "CZgate", "MZgate"]
NARGS = {"Dgate": 2, "Sgate": 2, "Rgate": 1, "Xgate": 1, "Zgate": 1, "Pgate": 1, "Fouriergate": 0, "LossChannel": 1,
         "BSgate": 2, "S2gate": 2, "CXgate": 1, "CZgate": 1, "MZgate": 2}
GATES = set(ONE + TWO) - {"LossChannel"}


def load():
    setup_paths()
    import strawberryfields as sf
    from strawberryfields import ops
    import strawberryfields.program_utils as pu
    from strawberryfields.parameters import ParameterError
    from .. import simrun

    return {"sf": sf, "ops": ops, "pu": pu, "simrun": simrun, "ParameterError": ParameterError}


def gen_fragment(rng, n, measured, allow_meas=True, small=True):
    cmds = []
    L = int(rng.integers(2, 7))
    measured = list(measured)
    for _ in range(L):
        r = rng.random()
        if n >= 2 and r < 0.35:
            nm = str(rng.choice(TWO))
            a, b = (int(x) for x in rng.choice(n, 2, replace=False))
            m = [a, b]
        elif r < 0.85 or not allow_meas:
            nm = str(rng.choice(ONE))
            m = [int(rng.integers(n))]
        else:
            mm = int(rng.integers(n))
            cmds.append({"op": "MeasureHomodyne", "p": [float(rng.choice([0.0, 0.6, 1.5707963]))], "m": [mm]})
            if mm not in measured:
                measured.append(mm)
            continue
        if nm == "LossChannel":
            p = [float(rng.uniform(0.4, 1.0))]
        else:
            p = [float(rng.choice([0.0, rng.uniform(-0.3, 0.3)], p=[0.1, 0.9])) if i == 0 else float(rng.uniform(0, 3))
                 for i in range(NARGS[nm])]
            if nm in ("BSgate", "MZgate", "Rgate"):
                p[0] = float(rng.uniform(-3, 3))
        c = {"op": nm, "p": p, "m": m, "dag": bool(nm in GATES and NARGS[nm] > 0 and rng.random() < 0.3)}
        cand = [x for x in measured if x not in m]
        if cand and nm in ("Dgate", "Xgate", "Zgate", "Rgate") and rng.random() < 0.5:
            c["mpar"] = {"mode": int(rng.choice(cand)), "scale": float(rng.choice([0.5, -0.3, 0.2]))}
        cmds.append(c)
        if len(m) == 1 and "mpar" not in c and c["p"] and rng.random() < 0.25:
            # a second operation of the same family right behind it: a pair the optimizer merges
            c2 = dict(c, p=list(c["p"]))
            c2["p"][0] = float(rng.uniform(0.5, 0.95)) if nm == "LossChannel" else float(rng.uniform(-0.3, 0.3))
            cmds.append(c2)
    return cmds, measured


def gen_case(rng, backend):
    n = int(rng.integers(1, 4))
    A, mA = gen_fragment(rng, n, [])
    B, mB = gen_fragment(rng, n, mA if rng.random() < 0.7 else [])
    pattern = str(rng.choice(["compose", "compose", "reset", "compile", "rerun", "compose3", "interleave"]))
    case = {"n": n, "A": A, "B": B, "backend": backend, "pattern": pattern,
            "conf": {"cutoff_dim": 6} if backend == "fock" else {}}
    def feed_forward(frag, measured_in_A):
        # make sure an outcome of the first fragment is used in this one (before any re-measurement of that mode)
        src = int(rng.choice(measured_in_A))
        tgt = int(rng.choice([k for k in range(n) if k != src]))
        frag.insert(0, {"op": str(rng.choice(["Xgate", "Zgate", "Dgate", "Rgate"])), "p": [0.1, 0.4][:1], "m": [tgt], "dag": False,
                        "mpar": {"mode": src, "scale": float(rng.choice([0.5, -0.3, 0.2]))}})
        if frag[0]["op"] == "Dgate":
            frag[0]["p"] = [0.1, 0.4]

    if pattern in ("compose3", "interleave") and rng.random() < 0.7:
        if n == 1:
            n = case["n"] = 2
        if not mA:
            mm = int(rng.integers(n))
            A.append({"op": "MeasureHomodyne", "p": [0.0], "m": [mm]})
            mA = [mm]
        case["ff"] = True
    if pattern == "compose3":
        # three segments; the middle one often without any measurement, the last one feeding forward outcomes of the first
        if rng.random() < 0.6:
            case["B"], mB = gen_fragment(rng, n, mA, allow_meas=False)
            mB = list(mA)
        case["C"], _ = gen_fragment(rng, n, sorted(set(mA) | set(mB)) if rng.random() < 0.85 else [])
        if case.get("ff"):
            feed_forward(case["C"], mA)
    if pattern == "interleave":
        case["other"] = str(rng.choice(["run", "run+reset", "run-twice"]))
        if case.get("ff"):
            feed_forward(case["B"], mA)
    if pattern in ("compile", "rerun") and rng.random() < 0.5:
        # free parameter in A (single-program patterns only: run(args=...) binds the names on every program
        # of a list and documents ParameterError for a program that does not have them)
        for c in A:
            if c["op"] in ("Dgate", "Sgate", "Rgate") and "mpar" not in c:
                c["sym"] = {"name": "a", "scale": float(rng.choice([1.0, 0.5]))}
                case["args"] = {"a": float(rng.uniform(-0.3, 0.3))}
                break
    return case


def append_cmds(env, prog, q, cmds):
    ops = env["ops"]
    for c in cmds:
        p = list(c["p"])
        if "sym" in c:
            p[0] = prog.params(c["sym"]["name"]) * c["sym"]["scale"]
        if "mpar" in c:
            p[0] = q[c["mpar"]["mode"]].par * c["mpar"]["scale"]
        if c["op"] == "MeasureHomodyne":
            op = ops.MeasureHomodyne(p[0])
        else:
            op = getattr(ops, c["op"])(*p)
            if c.get("dag"):
                op = op.H
        regs = tuple(q[i] for i in c["m"])
        op | (regs if len(regs) > 1 else regs[0])


def build(env, n_or_parent, cmds):
    sf = env["sf"]
    prog = sf.Program(n_or_parent)
    with prog.context as q:
        append_cmds(env, prog, q, cmds)
    return prog


def op_snap(op):
    ps = []
    for x in op.p:
        if isinstance(x, np.ndarray):
            ps.append(("arr", id(x), x.shape, x.tobytes() if x.dtype != object else str(x.tolist())))
        else:
            ps.append(("v", id(x), str(x)))
    return (type(op).__name__, id(op), id(op.p), tuple(ps), bool(getattr(op, "dagger", False)))


def prog_snap(prog):
    return (id(prog.circuit), len(prog.circuit),
            tuple((id(c), op_snap(c.op), id(c.reg), tuple((id(r), r.ind, r.active) for r in c.reg)) for c in prog.circuit),
            tuple((k, id(r), r.ind, r.active) for k, r in prog.reg_refs.items()),
            prog.init_num_subsystems, tuple(sorted(prog.free_params)), tuple(sorted(prog.run_options.items())),
            prog.target)


def snap_diff(a, b):
    names = ["circuit list identity", "circuit length", "commands / operations / parameters / dagger / registers",
             "reg_refs", "init_num_subsystems", "free parameter names", "run_options", "target"]
    return [n for n, x, y in zip(names, a, b) if x != y]


class Scripted:
    """RandomTap script + CommandTap: outcomes fixed per (measured mode, occurrence); records the applied stream."""

    def __init__(self, env):
        self.env = env
        self.occ = {}
        self.names = {}
        self.cur = None
        self.stream = []
        self.tap = CommandTap()
        self.tap.pre.append(self.pre)
        self.tap.post.append(self.post)
        self.rt = RandomTap(self.script)

    def pre(self, op, reg, backend, kwargs):
        if isinstance(op, self.env["ops"].Measurement):
            key = tuple(r.ind for r in reg)
            # occurrences are counted per simulator, so that a second engine running the same program objects in
            # between does not shift the outcomes scripted for the first one
            okey = (self.names.setdefault(id(backend), len(self.names)),) + key
            self.occ[okey] = self.occ.get(okey, 0) + 1
            self.cur = (key, self.occ[okey] + 7 * okey[0])

    def post(self, op, reg, backend, kwargs, res, exc):
        from ..sfutil import numeric

        try:
            p = [np.round(np.asarray(x, dtype=complex), 9).tolist() for x in numeric(op.p)]
        except Exception:
            p = [str(x) for x in op.p]
        self.stream.append((type(op).__name__, p, tuple(r.ind for r in reg), bool(getattr(op, "dagger", False)),
                            None if exc is None else type(exc).__name__))

    def value(self):
        key, o = self.cur
        return 0.21 * o + 0.13 * key[0] - 0.3

    def script(self, name, a, k, real):
        if name == "np.random.multivariate_normal":  # gaussian / bosonic general-dyne
            mean = np.asarray(a[0])
            size = k.get("size", a[2] if len(a) > 2 else None)
            vec = np.zeros(len(mean))
            vec[0] = self.value()
            return vec if size is None else np.array([vec] * int(size))
        if name == "np.random.normal":
            return 0.05
        if name == "np.random.random":  # bosonic rejection sampling: always accept
            size = k.get("size", a[0] if a else None)
            return 0.0 if size is None else np.zeros(size)
        if name == "np.random.multinomial":  # fock homodyne: pick a fixed bin
            n, pv = a[0], np.asarray(a[1])
            out = np.zeros(len(pv), dtype=int)
            idx = int(len(pv) * (0.5 + 0.02 * self.value()))
            out[min(max(idx, 0), len(pv) - 1)] = n
            return out
        if name == "np.random.choice":
            x = a[0]
            size = k.get("size", a[1] if len(a) > 1 else None)
            first = 0 if isinstance(x, (int, np.integer)) else x[0]
            return first if size is None else np.array([first] * int(np.prod(size)))
        return NotImplemented

    def __enter__(self):
        self.rt.install()
        self.tap.install()
        return self

    def __exit__(self, *a):
        self.tap.uninstall()
        self.rt.uninstall()


def final_state(env, eng):
    snap = env["simrun"].Snap(eng.backend)
    if snap.kind == "fock":
        return ("fock", snap.dm.copy())
    if snap.kind == "bosonic":
        return ("bosonic", np.array(snap.w), np.array(snap.ms), np.array(snap.cs))
    return ("gaussian", snap.mu.copy(), snap.V.copy())


def state_diff(a, b):
    if a[0] != b[0]:
        return np.inf
    d = 0.0
    for x, y in zip(a[1:], b[1:]):
        if np.shape(x) != np.shape(y):
            return np.inf
        d = max(d, float(np.max(np.abs(np.asarray(x) - np.asarray(y)))) if np.size(x) else 0.0)
    return d


def run_pattern(env, case, how):
    """Returns (final state | exception, stream, programs)."""
    sf = env["sf"]
    backend, conf, n = case["backend"], case["conf"], case["n"]
    args = case.get("args", {})
    with Scripted(env) as sc:
        eng = sf.Engine(backend, backend_options=dict(conf))
        try:
            if "C" in case:
                if how == "concat":
                    P = build(env, n, case["A"] + case["B"] + case["C"])
                    eng.run(P, args=args)
                    progs = [P]
                else:
                    A = build(env, n, case["A"])
                    if how == "list":
                        B = build(env, A, case["B"])
                        C = build(env, B, case["C"])
                        eng.run([A, B, C], args=args)
                    elif how == "successive":
                        eng.run(A, args=args)
                        B = build(env, A, case["B"])
                        eng.run(B, args=args)
                        C = build(env, B, case["C"])
                        eng.run(C, args=args)
                    elif how == "list+one":
                        B = build(env, A, case["B"])
                        eng.run([A, B], args=args)
                        C = build(env, B, case["C"])
                        eng.run(C, args=args)
                    else:  # one+list
                        eng.run(A, args=args)
                        B = build(env, A, case["B"])
                        C = build(env, B, case["C"])
                        eng.run([B, C], args=args)
                    progs = [A, B, C]
            elif how == "concat":
                P = build(env, n, case["A"] + case["B"])
                eng.run(P, args=args)
                progs = [P]
            elif how in ("interleaved", "alone"):
                # the same Program objects are run by a second engine in between (user programs may be shared by engines)
                A = build(env, n, case["A"])
                eng.run(A, args=args)
                if how == "interleaved":
                    eng2 = sf.Engine(backend, backend_options=dict(conf))
                    eng2.run(A, args=args)
                    if case.get("other") == "run+reset":
                        eng2.reset()
                    elif case.get("other") == "run-twice":
                        eng2.reset()
                        eng2.run(A, args=args)
                B = build(env, A, case["B"])
                eng.run(B, args=args)
                progs = [A, B]
            else:
                A = build(env, n, case["A"])
                if how == "list":
                    B = build(env, A, case["B"])
                    eng.run([A, B], args=args)
                else:
                    # the realistic order: the second program is written after the first one has run
                    eng.run(A, args=args)
                    B = build(env, A, case["B"])
                    eng.run(B, args=args)
                progs = [A, B]
            st = final_state(env, eng)
        except Exception as e:
            return e, sc.stream, []
        return st, sc.stream, progs


def nontrivial(case):
    firstnv = any(c["op"] != "MeasureHomodyne" and c["op"] not in ("Rgate", "Fouriergate") and c["p"] and c["p"][0] != 0
                  for c in case["A"])
    dagdec = any(c.get("dag") or c["op"] in ("Xgate", "Zgate", "Pgate", "CXgate", "CZgate", "Fouriergate", "S2gate", "MZgate")
                 for c in case["A"] + case["B"])
    return firstnv and dagdec


def run_case(case, rep, env):
    sf = env["sf"]
    backend = case["backend"]
    def V(locus, kind, what, detail=None):
        if kind.endswith(":bosonic-multi-segment"):
            # the bosonic backend re-initialises its simulator for every program segment (recorded finding): every
            # comparison between segmented and concatenated execution fails for that one reason
            kind = "bosonic-multi-segment"
        rep.violation(locus, kind, what, case, detail)
    rep.case([rnd({k: case.get(k) for k in ("n", "A", "B", "C", "other")}, 5), backend, case["pattern"]], nontrivial(case),
             sample=case if rep.evaluations % 71 == 4 else None)
    cross_ff = any("mpar" in c for c in case["B"]) and not all(
        any(x["op"] == "MeasureHomodyne" and x["m"] == [c["mpar"]["mode"]] for x in case["B"][:i])
        for i, c in enumerate(case["B"]) if "mpar" in c)
    tag = ":bosonic-multi-segment" if backend == "bosonic" else ""
    # mechanism discriminator for the recorded symbol-cache finding: both fragments use a measured parameter of
    # the same mode, and (list pattern) both programs exist before the first one runs
    shared_sym = bool({c["mpar"]["mode"] for c in case["A"] if "mpar" in c} & {c["mpar"]["mode"] for c in case["B"] if "mpar" in c})
    pattern = case["pattern"]
    if pattern == "compose":
        r1, s1, _ = run_pattern(env, case, "list")
        r2, s2, _ = run_pattern(env, case, "successive")
        r3, s3, _ = run_pattern(env, case, "concat")
        excs = [type(r).__name__ if isinstance(r, Exception) else None for r in (r1, r2, r3)]
        if any(excs):
            if excs[0] == excs[1] == excs[2]:
                rep.observe("all-patterns-raised:" + str(excs[0]))
                return
            kind = "pattern-raises-differently"
            if shared_sym and excs[0] == "ParameterError" and excs[1] is None and excs[2] is None:
                kind = "list-raises:shared-measured-symbol"
            elif cross_ff and excs[2] is None:
                kind = "pattern-raises-differently:feed-forward-across-segments"
            V("Engine.run", kind + tag, "list: %s, successive: %s, concatenated: %s (%s)" % (
                excs[0] or "ok", excs[1] or "ok", excs[2] or "ok",
                [str(r)[:80] for r in (r1, r2, r3) if isinstance(r, Exception)][:1]))
            return
        rep.monitor("compose:list-vs-successive")
        d12 = state_diff(r1, r2)
        if d12 > 1e-9:
            V("Engine.run", "list-vs-successive" + tag, "run([A,B]) and run(A); run(B) end in different states (%.3e)" % d12)
        rep.monitor("compose:vs-concatenated")
        d13 = state_diff(r1, r3)
        rep.dev("compose.vs-concatenated", d13 if np.isfinite(d13) else 1e9, 1e-9)
        if d13 > 1e-9:
            kind = "segments-vs-concatenated"
            if cross_ff:
                kind += ":feed-forward-across-segments"
            V("Engine.run", kind + tag, "run([A,B]) and run(A++B) end in different states (max diff %.3e)" % d13)
        rep.monitor("stream:equal")
        if s1 != s2:
            V("Engine.run", "stream:list-vs-successive" + tag, "applied command streams differ between run([A,B]) and "
              "run(A); run(B)")
        elif s1 != s3 and d13 <= 1e-9:
            V("Engine.run", "stream:vs-concatenated" + tag, "applied command streams differ between segments and the "
              "concatenated program: first difference %s" % next(((a, b) for a, b in zip(s1, s3) if a != b),
                                                               (len(s1), len(s3))).__repr__()[:300])
        return

    if pattern == "compose3":
        hows = ["list", "successive", "concat", "list+one", "one+list"]
        res = {h: run_pattern(env, case, h) for h in hows}
        excs = {h: (type(r[0]).__name__ if isinstance(r[0], Exception) else None) for h, r in res.items()}
        ff13 = any("mpar" in c and not any(x["op"] == "MeasureHomodyne" and x["m"] == [c["mpar"]["mode"]] for x in case["B"] + case["C"][:i])
                   for i, c in enumerate(case["C"]))
        rep.observe("compose3:%s%s" % ("middle-without-measurement" if not any(c["op"] == "MeasureHomodyne" for c in case["B"]) else "middle-measures",
                                       "+feed-forward-1-to-3" if ff13 else ""))
        if any(excs.values()):
            if len(set(excs.values())) == 1:
                rep.observe("all-patterns-raised:" + str(excs["list"]))
                return
            V("Engine.run", "three-segments:pattern-raises-differently" + (":feed-forward-1-to-3" if ff13 else "") + tag,
              "three segments: %s (%s)" % (", ".join("%s: %s" % (h, excs[h] or "ok") for h in hows),
                                           [str(r[0])[:80] for r in res.values() if isinstance(r[0], Exception)][:1]))
            return
        rep.monitor("compose3:segmentations-agree")
        for h in hows[1:]:
            d = state_diff(res["list"][0], res[h][0])
            rep.dev("compose3." + h, d if np.isfinite(d) else 1e9, 1e-9)
            if d > 1e-9:
                V("Engine.run", "three-segments:%s-vs-list" % h + (":feed-forward-1-to-3" if ff13 else "") + tag,
                  "run([A,B,C]) and the %s execution of the same three fragments end in different states (max diff %.3e)" % (h, d))
                return
        return

    if pattern == "interleave":
        r1, s1, _ = run_pattern(env, case, "interleaved")
        r2, s2, _ = run_pattern(env, case, "alone")
        e1, e2 = (type(r).__name__ if isinstance(r, Exception) else None for r in (r1, r2))
        rep.observe("interleave:%s%s" % (case.get("other"), "+feed-forward" if cross_ff else ""))
        if e1 or e2:
            if e1 != e2:
                V("Engine.run", "other-engine-interferes:exception" + tag, "run(A); run(B) on one engine: %s; the same with a second engine "
                  "running the program object A in between (%s): %s (%s)" % (e2 or "ok", case.get("other"), e1 or "ok",
                                                                            [str(r)[:80] for r in (r1, r2) if isinstance(r, Exception)][:1]))
            else:
                rep.observe("all-patterns-raised:" + str(e1))
            return
        rep.monitor("interleave:other-engine-does-not-interfere")
        d = state_diff(r1, r2)
        rep.dev("interleave", d if np.isfinite(d) else 1e9, 1e-9)
        if d > 1e-9:
            V("Engine.run", "other-engine-interferes:state" + tag, "run(A); run(B) on one engine ends in a different state when a second "
              "engine runs the program object A in between (%s): max diff %.3e" % (case.get("other"), d))
        return

    args = case.get("args", {})
    A_cmds = case["A"] + (case["B"] if not any("mpar" in c for c in case["B"]) or True else [])
    if pattern == "reset":
        with Scripted(env) as sc:
            eng = sf.Engine(backend, backend_options=dict(case["conf"]))
            try:
                junk = build(env, case["n"], case["B"] if not cross_ff else case["A"])
                eng.run(junk, args=args)
                eng.reset()
                sc.occ.clear()
                P = build(env, case["n"], case["A"])
                eng.run(P, args=args)
                st1 = final_state(env, eng)
                if eng.run_progs != [eng.run_progs[-1]] or len(eng.run_progs) != 1:
                    V("Engine.reset", "run_progs-not-cleared", "after reset and one run, Engine.run_progs has %d entries" % len(eng.run_progs))
            except Exception as e:
                st1 = e
        with Scripted(env) as sc:
            eng2 = sf.Engine(backend, backend_options=dict(case["conf"]))
            try:
                P2 = build(env, case["n"], case["A"])
                eng2.run(P2, args=args)
                st2 = final_state(env, eng2)
            except Exception as e:
                st2 = e
        if isinstance(st1, Exception) or isinstance(st2, Exception):
            if type(st1) != type(st2):
                V("Engine.reset", "reset-vs-fresh-exception", "after reset: %r, fresh engine: %r" % (st1, st2))
            return
        rep.monitor("reset:like-fresh")
        d = state_diff(st1, st2)
        if d > 1e-9:
            V("Engine.reset", "reset-vs-fresh", "a reset engine and a fresh engine end in different states (%.3e)" % d)
        return

    if pattern in ("compile", "rerun"):
        P = build(env, case["n"], case["A"] + [c for c in case["B"]])
        before = prog_snap(P)
        if pattern == "compile":
            comp_name = {"gaussian": "gaussian", "fock": "fock", "bosonic": "bosonic"}[backend]
            for opt in (bool(len(case["A"]) % 2), True):
                try:
                    C1 = P.compile(compiler=comp_name, optimize=opt)
                except Exception as e:
                    rep.observe("compile-raised:" + type(e).__name__)
                    return
                rep.monitor("snapshot:compile")
                diff = snap_diff(before, prog_snap(P))
                if diff:
                    V("Program.compile", "source-modified", "compile(optimize=%s) changed the user's program: %s" % (opt, diff))
                    return
            # the Gaussian-merging compilers work on the same shared operation objects (a refusal is not judged here: C11)
            for other in ("gaussian_unitary", "gaussian_merge", "passive"):
                for rnd_ in range(2):
                    try:
                        P.compile(compiler=other)
                    except Exception as e:
                        rep.observe("compile-raised:%s:%s" % (other, type(e).__name__))
                        break
                    rep.monitor("snapshot:compile:" + other)
                    diff = snap_diff(before, prog_snap(P))
                    if diff:
                        V("Program.compile", "source-modified:" + other, "compile(compiler=%r) changed the user's program: %s" % (other, diff))
                        return
        results = []
        for k in range(2):
            with Scripted(env) as sc:
                eng = sf.Engine(backend, backend_options=dict(case["conf"]))
                try:
                    eng.run(P, args=args)
                    results.append(final_state(env, eng))
                except Exception as e:
                    results.append(e)
            if k == 0:
                rep.monitor("snapshot:run")
                diff = snap_diff(before, prog_snap(P))
                if diff:
                    V("Engine.run", "source-modified", "run changed the user's program: %s" % diff)
                    return
        if isinstance(results[0], Exception) or isinstance(results[1], Exception):
            if type(results[0]) != type(results[1]):
                V("Engine.run", "rerun-exception", "first run: %r, second run on a fresh engine: %r" % (results[0], results[1]))
            return
        rep.monitor("rerun:fresh-engine")
        d = state_diff(results[0], results[1])
        if d > 1e-9:
            V("Engine.run", "rerun-differs", "running the same program object again on a fresh engine gives a different "
              "state (%.3e)" % d)


def fault_cases(env, rep, rng, ncases):
    """A daggered gate whose _apply raises while applying must leave its parameters as they were."""
    sf, ops = env["sf"], env["ops"]
    for i in range(ncases):
        kind = ["measured-before-measurement", "unbound-free-parameter", "backend-failpoint"][i % 3]
        backend = ["gaussian", "fock"][(i // 3) % 2]
        conf = {"cutoff_dim": 5} if backend == "fock" else {}
        gate = ["Dgate", "Sgate", "BSgate"][int(rng.integers(3))]
        prog = sf.Program(2)
        case = {"fault": kind, "backend": backend, "gate": gate}
        with prog.context as q:
            ops.Sgate(0.2) | q[0]
            if kind == "measured-before-measurement":
                second = q[1].par
            elif kind == "unbound-free-parameter":
                second = prog.params("phi")
            else:
                second = 0.4
            if gate == "BSgate":
                g = ops.BSgate(0.3, second).H
                g | (q[0], q[1])
            else:
                g = getattr(ops, gate)(0.3, second).H
                g | q[0]
            ops.MeasureX | q[1]
        op = prog.circuit[1].op
        before = (id(op.p[0]), str(op.p[0]), id(op.p), len(op.p), op.dagger)
        psnap = prog_snap(prog)
        eng = sf.Engine(backend, backend_options=conf)
        raised = None
        fp = None
        if kind == "backend-failpoint":
            method = {"Dgate": "displacement", "Sgate": "squeeze", "BSgate": "beamsplitter"}[gate]
            cls = type(eng.backend)
            orig = getattr(cls, method)
            calls = [0]

            def failing(self, *a, **k):
                calls[0] += 1
                if calls[0] == (2 if gate == "Sgate" else 1):
                    raise RuntimeError("injected failpoint")
                return orig(self, *a, **k)
            setattr(cls, method, failing)
            fp = (cls, method, orig)
        try:
            eng.run(prog)
        except Exception as e:
            raised = e
        finally:
            if fp:
                setattr(fp[0], fp[1], fp[2])
        rep.case(["fault", kind, backend, gate], True)
        if raised is None:
            rep.observe("fault.did-not-raise:" + kind)
            continue
        rep.observe("fault.raised:%s:%s" % (kind, type(raised).__name__))
        rep.monitor("fault:p0-restored")
        after = (id(op.p[0]), str(op.p[0]), id(op.p), len(op.p), op.dagger)
        if before != after:
            rep.violation("Gate.apply", "p0-not-restored-after-exception",
                          "a daggered %s whose _apply raised (%s: %s) was left with p[0] = %s instead of %s" % (
                              gate, kind, type(raised).__name__, after[1], before[1]), case)
            continue
        if snap_diff(psnap, prog_snap(prog)):
            rep.violation("Engine.run", "source-modified-after-exception", "program changed by a failing run: %s" % snap_diff(
                psnap, prog_snap(prog)), case)


def plan(tier, seed, scale=1.0):
    n = int((56 if tier == "quick" else 1100) * scale)
    return [{"n": n, "timeout": 3000} for _ in range(16)]


def run_shard(shard, rep):
    env = load()
    rng = np.random.default_rng([shard["seed"], shard["id"], 9])
    backends = ["gaussian", "gaussian", "fock", "bosonic"]
    for i in range(shard["n"]):
        case = gen_case(rng, backends[i % len(backends)])
        try:
            run_case(case, rep, env)
        except Exception as e:
            rep.error("run_case", e)
    try:
        fault_cases(env, rep, rng, 6 if shard.get("tier") == "quick" else 24)
    except Exception as e:
        rep.error("fault_cases", e)


def replay(case, rep):
    env = load()
    if "fault" in case:
        fault_cases(env, rep, np.random.default_rng(0), 18)
    else:
        run_case(case, rep, env)
