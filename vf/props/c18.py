"""C18 — programs reported equal or equivalent really compute the same thing.

Monitor: every return of Program.__eq__ and program_equivalence (wrapped where program.py bound it) is
recorded with both operands; on every True the two programs are interpreted by RefGauss (net affine
action (X, Y, d) of the whole circuit) and must agree - exactly for `==`, up to one global relabelling of
modes for `equivalence` (the relation is a graph isomorphism that does not fix mode labels).
Reflexivity, symmetry and the commuting-reorder clause are evaluated on every generated pair.
"""
import copy
import itertools

import numpy as np

from ..common import setup_paths, rnd, enc, dec as jdec
from .. import refgauss as rg, gen

PROPERTY = "C18"
RULE = ("seeded base programs (1-4 modes, 2-9 commands over Gaussian gates, channels and preparations, dagger forms) "
        "paired with a mutant produced by one controlled operator (identical copy, proper prefix, extension, dagger "
        "flip, first-parameter tweak below/above atol, tail-parameter tweak, mode swap on a two-mode gate, gate-class "
        "swap, commuting reorder, target-mode change, register-size change, first parameter changed in its fifth significant "
        "digit, rotation between two interior rows of an interferometer matrix (2, 3 and 34 modes)); non-trivial = the pair differs in exactly "
        "one controlled aspect (mutation != identical) and both comparisons returned; distinct = (rounded base, mutation).")
ASSUMPTIONS = [
    "'compute the same thing' is decided on the Gaussian fragment by the reference net action; tolerance 1e-4 "
    "(equivalence itself compares parameters with atol 1e-6)",
    "equivalence is allowed to identify programs that differ by one global relabelling of modes",
    "programs with array-valued parameters: a raising == (numpy truth-value semantics) claims nothing and is counted, a "
    "returned True is judged like any other; relabelling of modes is not considered for the 34-mode array programs "
    "(their mutations never relabel)",
]
REQUIRED_MONITORS = ["eq:returned", "equiv:returned", "eq:true-checked", "equiv:true-checked", "reflexive",
                     "symmetric", "commuting-reorder"]

ONE = ["Sgate", "Rgate", "Dgate", "Xgate", "Zgate", "Pgate", "Fouriergate", "LossChannel", "Squeezed", "Coherent",
       "Thermal", "Vacuum"]
TWO = ["BSgate", "MZgate", "S2gate", "CXgate", "CZgate"]
NARGS = {"Sgate": 2, "Rgate": 1, "Dgate": 2, "Xgate": 1, "Zgate": 1, "Pgate": 1, "Fouriergate": 0, "LossChannel": 1,
         "Squeezed": 2, "Coherent": 2, "Thermal": 1, "Vacuum": 0, "BSgate": 2, "MZgate": 2, "S2gate": 2, "CXgate": 1,
         "CZgate": 1}
GATES = {"Sgate", "Rgate", "Dgate", "Xgate", "Zgate", "Pgate", "Fouriergate", "BSgate", "MZgate", "S2gate", "CXgate",
         "CZgate"}


def rand_params(rng, name):
    k = NARGS[name]
    if name == "LossChannel":
        return [float(rng.uniform(0.3, 0.95))]
    if name == "Thermal":
        return [float(rng.uniform(0.1, 1.0))]
    if name == "BSgate" and rng.random() < 0.25:
        return [float(rng.choice([np.pi / 4, 5 * np.pi / 4])), float(rng.choice([np.pi / 2, 3 * np.pi / 2]))]
    vals = []
    for i in range(k):
        v = float(rng.uniform(0.15, 1.2)) * (1 if rng.random() < 0.8 else -1)
        vals.append(v)
    return vals


def gen_base(rng):
    if rng.random() < 0.08:
        # a program with an array-valued parameter: an interferometer on all modes of a small or a large register
        # (34 x 34: more than 1000 entries)
        n = int(rng.choice([2, 3, 34]))
        cmds = []
        for _ in range(int(rng.integers(1, 4))):
            name = str(rng.choice(["Sgate", "Dgate", "Rgate"]))
            cmds.append({"op": name, "p": rand_params(rng, name), "m": [int(rng.integers(min(n, 4)))], "dag": False})
        cmds.append({"op": "Interferometer", "p": [enc(gen.haar(rng, n))], "m": list(range(n)), "dag": False})
        name = str(rng.choice(["Sgate", "Rgate"]))
        cmds.append({"op": name, "p": rand_params(rng, name), "m": [int(rng.integers(min(n, 4)))], "dag": False})
        return {"n": n, "cmds": cmds, "array": True}
    n = int(rng.integers(1, 5))
    L = int(rng.integers(2, 10))
    cmds = []
    for _ in range(L):
        if n >= 2 and rng.random() < 0.45:
            name = str(rng.choice(TWO))
            a, b = (int(x) for x in rng.choice(n, 2, replace=False))
            m = [a, b]
        else:
            name = str(rng.choice(ONE))
            m = [int(rng.integers(n))]
        cmds.append({"op": name, "p": rand_params(rng, name), "m": m,
                     "dag": bool(name in GATES and rng.random() < 0.25)})
    if rng.random() < 0.12:
        cand = [c for c in cmds if c["op"] in ("Sgate", "Rgate", "Dgate", "Xgate", "Zgate", "Pgate", "CXgate", "CZgate", "S2gate")]
        if cand:
            cand[int(rng.integers(len(cand)))]["sym"] = True
    return {"n": n, "cmds": cmds}


MUTATIONS = ["identical", "prefix", "extension", "dagger_flip", "p0_below_atol", "p0_above_atol", "tail_tweak",
             "mode_swap", "class_swap", "commuting_reorder", "target_change", "register_size", "p0_fifth_digit",
             "array_interior"]
ARRAY_MUTATIONS = ["identical", "prefix", "dagger_flip", "p0_above_atol", "p0_fifth_digit", "array_interior"]


def mutate(rng, base, kind):
    q = copy.deepcopy(base)
    c = q["cmds"]
    if kind == "identical":
        return q
    if kind == "prefix":
        if len(c) < 2:
            return None
        q["cmds"] = c[: int(rng.integers(1, len(c)))]
        return q
    if kind == "extension":
        name = str(rng.choice(["Sgate", "Rgate", "Dgate"]))
        c.append({"op": name, "p": rand_params(rng, name), "m": [int(rng.integers(q["n"]))], "dag": False})
        return q
    idx = list(range(len(c)))
    rng.shuffle(idx)
    if kind == "dagger_flip":
        for i in idx:
            if c[i]["op"] in GATES and c[i]["op"] != "Fouriergate" and NARGS.get(c[i]["op"], 0) > 0:
                c[i]["dag"] = not c[i]["dag"]
                return q
        return None
    if kind == "p0_fifth_digit":
        # the first parameter changes in its fifth significant digit
        for i in idx:
            if NARGS.get(c[i]["op"], 0) >= 1 and abs(c[i]["p"][0]) > 1e-3:
                c[i]["p"][0] *= 1 + 6e-5
                return q
        return None
    if kind == "array_interior":
        # a rotation between two middle rows of the interferometer matrix (for 34 modes no entry in the first or last
        # three rows / columns... of the rows printed by numpy's summarised repr changes)
        for i in idx:
            if c[i]["op"] == "Interferometer":
                U = np.array(jdec(c[i]["p"][0]))
                n = U.shape[0]
                a, b = (n // 2 - 1, n // 2) if n >= 2 else (0, 0)
                G = np.eye(n, dtype=complex)
                th = 0.7
                G[a, a], G[a, b], G[b, a], G[b, b] = np.cos(th), -np.sin(th), np.sin(th), np.cos(th)
                c[i]["p"][0] = enc(G @ U)
                return q
        return None
    if kind in ("p0_below_atol", "p0_above_atol"):
        for i in idx:
            if NARGS.get(c[i]["op"], 0) >= 1:
                c[i]["p"][0] += 1e-9 if kind == "p0_below_atol" else float(rng.choice([3e-3, 0.05, 0.4]))
                return q
        return None
    if kind == "tail_tweak":
        for i in idx:
            if NARGS[c[i]["op"]] >= 2:
                c[i]["p"][1] += float(rng.choice([3e-3, 0.3, np.pi]))
                return q
        return None
    if kind == "mode_swap":
        for i in idx:
            if len(c[i]["m"]) == 2:
                c[i]["m"] = c[i]["m"][::-1]
                return q
        return None
    if kind == "class_swap":
        for i in idx:
            name = c[i]["op"]
            pool = [x for x in (TWO if len(c[i]["m"]) == 2 else ONE) if x != name and NARGS[x] == NARGS[name]]
            if pool:
                c[i]["op"] = str(rng.choice(pool))
                if c[i]["op"] not in GATES:
                    c[i]["dag"] = False
                    c[i]["p"] = rand_params(rng, c[i]["op"])
                return q
        return None
    if kind == "commuting_reorder":
        for i in range(len(c) - 1):
            j = idx[i] if idx[i] < len(c) - 1 else 0
            if not set(c[j]["m"]) & set(c[j + 1]["m"]):
                c[j], c[j + 1] = c[j + 1], c[j]
                return q
        return None
    if kind == "target_change":
        if q["n"] < 2:
            return None
        for i in idx:
            if len(c[i]["m"]) == 1:
                others = [m for m in range(q["n"]) if m != c[i]["m"][0]]
                c[i]["m"] = [int(rng.choice(others))]
                return q
        return None
    if kind == "register_size":
        q["n"] += 1
        return q
    raise KeyError(kind)


def spec_tuples(spec):
    return [(c["op"], [jdec(x) for x in c["p"]], c["m"], c.get("dag", False)) for c in spec["cmds"]]


def same_action(a, b, tol=1e-4):
    return all(np.max(np.abs(x - y)) <= tol * (1 + np.max(np.abs(x))) for x, y in zip(a, b))


def permute_action(act, perm):
    """Relabel modes: mode i -> perm[i]."""
    X, Y, d = act
    n = len(perm)
    ix = np.array(list(perm) + [n + p for p in perm])
    inv = np.argsort(ix)
    return X[np.ix_(inv, inv)], Y[np.ix_(inv, inv)], d[inv]


def same_up_to_relabelling(a, b, n):
    for perm in itertools.permutations(range(n)):
        if same_action(permute_action(a, perm), b):
            return True
    return False


class Ctx:
    def __init__(self, rep):
        setup_paths()
        import strawberryfields as sf
        import strawberryfields.program as program_mod
        import strawberryfields.program_utils as pu
        from .. import sfutil

        from strawberryfields import ops

        self.sf, self.sfutil, self.ops = sf, sfutil, ops
        self.rep = rep
        self.log = []
        # wrap Program.__eq__ and program_equivalence (module attribute and the alias bound in program.py)
        orig_eq = sf.Program.__eq__
        orig_pe = pu.program_equivalence
        ctx = self

        def eq(self_p, other):
            r = orig_eq(self_p, other)
            ctx.log.append(("eq", self_p, other, r))
            rep.monitor("eq:returned")
            return r

        def pe(p1, p2, *a, **k):
            r = orig_pe(p1, p2, *a, **k)
            ctx.log.append(("equiv", p1, p2, r))
            rep.monitor("equiv:returned")
            return r

        sf.Program.__eq__ = eq
        pu.program_equivalence = pe
        if getattr(program_mod, "program_equivalence", None) is orig_pe:
            program_mod.program_equivalence = pe


SYM_VALUE = 0.37  # the value the free parameter "a" stands for when the harness interprets a template


def build_symbolic(ctx, spec):
    """Like sfutil.build_program, but the command marked "sym" gets the unbound free parameter `a` (times its numeric value /
    SYM_VALUE, so that binding a = SYM_VALUE reproduces the numeric spec)."""
    sf, ops = ctx.sf, ctx.ops
    prog = sf.Program(spec["n"])
    a = prog.params("a")
    with prog.context as q:
        for c in spec["cmds"]:
            p = [jdec(x) for x in c["p"]]
            if c.get("sym"):
                p[0] = a * (p[0] / SYM_VALUE)
            op = getattr(ops, c["op"])(*p)
            if c.get("dag"):
                op = op.H
            regs = tuple(q[i] for i in c["m"])
            op | (regs if len(regs) > 1 else regs[0])
    return prog


def run_case(case, rep, ctx):
    base, mut, kind = case["base"], case["mutant"], case["mutation"]
    symbolic = any(c.get("sym") for c in base["cmds"]) or any(c.get("sym") for c in mut["cmds"])
    n = max(base["n"], mut["n"])
    aP = rg.net_action(spec_tuples(base), n)
    aQ = rg.net_action(spec_tuples(mut), n)
    if symbolic:
        # templates: one gate parameter is the unbound free parameter `a`; a comparison that cannot evaluate it may raise
        # (claims nothing), but a returned True is judged on the programs the templates stand for (a = SYM_VALUE)
        P, Q = build_symbolic(ctx, base), build_symbolic(ctx, mut)
        rep.observe("template-pair:" + kind)
    else:
        P = ctx.sfutil.build_program(base["n"], base["cmds"])
        Q = ctx.sfutil.build_program(mut["n"], mut["cmds"])
        # the harness also reads the programs back from the real Program objects (what == really saw)
        tP = ctx.sfutil.circuit_tuples(P.circuit)
        tQ = ctx.sfutil.circuit_tuples(Q.circuit)
        aP2 = rg.net_action(tP, n)
        aQ2 = rg.net_action(tQ, n)
        if not (same_action(aP, aP2, 1e-9) and same_action(aQ, aQ2, 1e-9)):
            rep.error("readback", RuntimeError("program read-back differs from its spec"))
            return
    identical_semantics = same_action(aP, aQ) and base["n"] == mut["n"]
    rep.case([rnd(base, 5), kind, rnd(mut, 5)], kind != "identical",
             sample={"mutation": kind, "base": base, "mutant": mut} if rep.evaluations % 300 == 11 else None)
    V = lambda locus, k, what: rep.violation(locus, k, what, case)
    # mechanism tag: which controlled aspect differs (and, for wire changes, on which operation class)
    tag = kind
    if kind in ("mode_swap", "target_change"):
        diff = [a for a, b in zip(base["cmds"], mut["cmds"]) if a["m"] != b["m"]]
        tag = kind + ":" + (diff[0]["op"] if kind == "mode_swap" and diff else "one-mode-op")

    ctx.log.clear()
    r1 = r2 = e1 = e2 = None
    try:
        r1 = P == Q
        r2 = Q == P
    except Exception as e:  # a raising comparison reports nothing; recorded, not judged
        rep.observe("comparison-raised:==:%s:%s" % (kind, type(e).__name__))
        r1 = r2 = None
    try:
        e1 = P.equivalence(Q)
        e2 = Q.equivalence(P)
    except Exception as e:
        rep.observe("comparison-raised:equivalence:%s:%s" % (kind, type(e).__name__))
        e1 = e2 = None
    rep.observe("outcome:%s:eq=%s:equiv=%s" % (kind, r1, e1))
    if base.get("array"):
        rep.observe("array-program:n=%d:%s:eq=%s:equiv=%s" % (base["n"], kind, r1, e1))
    rep.monitor("symmetric", 2)
    if r1 is not None and bool(r1) != bool(r2):
        V("Program.__eq__", "asymmetric:" + kind, "P == Q is %s but Q == P is %s (mutation %s)" % (r1, r2, kind))
    if e1 is not None and bool(e1) != bool(e2):
        V("program_equivalence", "asymmetric:" + kind, "P~Q is %s but Q~P is %s (mutation %s)" % (e1, e2, kind))
    for rel, A, B, r in list(ctx.log):
        if not r:
            continue
        a, b = (aP, aQ) if A is P else (aQ, aP)
        if rel == "eq":
            rep.monitor("eq:true-checked")
            # (== compares parameters exactly, so programs it calls equal must have the same action to rounding)
            if not (same_action(a, b, 1e-9) and base["n"] == mut["n"]):
                V("Program.__eq__", "true-but-different:" + tag,
                  "programs compare equal but their net actions differ (mutation: %s)" % kind)
        else:
            rep.monitor("equiv:true-checked")
            if not same_action(a, b) and (n > 6 or not same_up_to_relabelling(a, b, n)):
                V("program_equivalence", "true-but-different:" + tag,
                  "programs reported equivalent but their net actions differ, also up to relabelling of modes "
                  "(mutation: %s)" % kind)
    # reflexivity (same object)
    rep.monitor("reflexive", 2)
    try:
        if not (P == P):
            V("Program.__eq__", "not-reflexive", "P == P is False")
    except Exception as e:
        rep.observe("comparison-raised:==:reflexive:%s" % type(e).__name__)
    try:
        if not P.equivalence(P):
            V("program_equivalence", "not-reflexive", "P.equivalence(P) is False")
    except Exception as e:
        rep.observe("comparison-raised:equivalence:reflexive:%s" % type(e).__name__)
    if kind == "identical" and e1 is not None:
        if not e1:
            V("program_equivalence", "identical-copy-inequivalent", "an identical copy is reported inequivalent")
    if kind == "commuting_reorder" and e1 is not None:
        rep.monitor("commuting-reorder")
        if not e1:
            V("program_equivalence", "commuting-reorder-inequivalent",
              "swapping two adjacent commands on disjoint modes made the programs inequivalent")


def plan(tier, seed, scale=1.0):
    n = int((130 if tier == "quick" else 2500) * scale)
    return [{"n": n, "timeout": 1700} for _ in range(16)]


def run_shard(shard, rep):
    ctx = Ctx(rep)
    rng = np.random.default_rng([shard["seed"], shard["id"], 18])
    for _ in range(shard["n"]):
        base = gen_base(rng)
        for kind in (ARRAY_MUTATIONS if base.get("array") else MUTATIONS):
            mut = mutate(rng, base, kind)
            if mut is None:
                continue
            case = {"base": base, "mutant": mut, "mutation": kind}
            try:
                run_case(case, rep, ctx)
            except Exception as e:
                rep.error("run_case", e)


def replay(case, rep):
    run_case(case, rep, Ctx(rep))
