"""C17 — matrix decompositions return exact, correctly structured factors.

icontract postconditions are attached to the real functions in strawberryfields.decompositions (so calls
made by ops / compilers inside the workload are checked too); each postcondition rebuilds the input with
the harness's own elementary matrices (T, Ti, Mach-Zehnder, sMZI M, phase P, SU(2) blocks written here
from the documented formulas) and records a violation instead of raising, so one run reports every
mechanism.  Negative tests: invalid inputs beyond tolerance must raise ValueError.
"""
import numpy as np

from ..common import setup_paths, rnd
from ..instrument import ReachMonitor
from .. import gen

PROPERTY = "C17"
RULE = ("seeded matrix generators (Haar, real orthogonal, permutation, identity, diagonal phases, block-diagonal, "
        "exact zeros where the nulling routines test for them, degenerate / repeated singular values, passive / "
        "active / identity symplectics, pure / mixed / degenerate covariances, near-tolerance perturbations, "
        "invalid inputs) of size 1-8 fed to every routine; non-trivial = input is valid, not the identity and "
        "size >= 2; distinct = (routine, matrix class, size, rounded entries hash).")
ASSUMPTIONS = [
    "NumPy/SciPy linear algebra is trusted for products, norms and eigenvalues",
    "elementary matrices (T, MZ, M, P, SU(2)) are re-implemented from the documented formulas in the harness",
    "inputs in the band [0.5*tol, 2*tol] around a validity tolerance are not generated (either answer is acceptable)",
    "reconstruction budgets: 1e-11 * 2 n^2 (x10-100 for the compact / Mach-Zehnder / SU(n) routines) for inputs that are valid to "
    "rounding, 1e-9-based for the near_valid class, 3e-7 for sun_compact on weakly coupled inputs (sqrt(1-|U00|^2) cancellation)",
]
REQUIRED_MONITORS = ["post:takagi", "post:williamson", "post:bloch_messiah", "post:rectangular",
                     "post:rectangular_phase_end", "post:rectangular_MZ", "post:rectangular_symmetric",
                     "post:triangular", "post:triangular_compact", "post:rectangular_compact",
                     "post:sun_compact", "post:graph_embed", "post:bipartite_graph_embed", "neg:raises"]

_REP = [None]
_CASE = [None]


def _viol(locus, kind, what):
    _REP[0].violation(locus, kind, what, _CASE[0])


# ---- harness's own elementary matrices ---------------------------------------------------------

def hT(m, n, theta, phi, N):
    A = np.eye(N, dtype=complex)
    A[m, m] = np.exp(1j * phi) * np.cos(theta)
    A[m, n] = -np.sin(theta)
    A[n, m] = np.exp(1j * phi) * np.sin(theta)
    A[n, n] = np.cos(theta)
    return A


def hTi(m, n, theta, phi, N):
    return hT(m, n, theta, phi, N).conj().T


def hMZ(m, n, phi_i, phi_e, N):
    """documented: i e^{i phi_i/2} [[sin(phi_i/2) e^{i phi_e}, cos(phi_i/2)],[cos(phi_i/2) e^{i phi_e}, -sin(phi_i/2)]]"""
    A = np.eye(N, dtype=complex)
    f = 1j * np.exp(1j * phi_i / 2)
    A[m, m] = f * np.sin(phi_i / 2) * np.exp(1j * phi_e)
    A[m, n] = f * np.cos(phi_i / 2)
    A[n, m] = f * np.cos(phi_i / 2) * np.exp(1j * phi_e)
    A[n, n] = -f * np.sin(phi_i / 2)
    return A


def hM(n, sigma, delta, N):
    A = np.eye(N, dtype=complex)
    e = np.exp(1j * sigma)
    A[n, n] = e * np.sin(delta)
    A[n, n + 1] = e * np.cos(delta)
    A[n + 1, n] = e * np.cos(delta)
    A[n + 1, n + 1] = -e * np.sin(delta)
    return A


def hP(j, phi, N):
    A = np.eye(N, dtype=complex)
    A[j, j] = np.exp(1j * phi)
    return A


def hSU2(N, i, params):
    a, b, g = params
    A = np.eye(N, dtype=complex)
    A[i, i] = np.exp(1j * (a + g) / 2) * np.cos(b / 2)
    A[i, i + 1] = -np.exp(1j * (a - g) / 2) * np.sin(b / 2)
    A[i + 1, i] = np.exp(-1j * (a - g) / 2) * np.sin(b / 2)
    A[i + 1, i + 1] = np.exp(-1j * (a + g) / 2) * np.cos(b / 2)
    return A


def omega(n):
    I = np.eye(n)
    Z = np.zeros((n, n))
    return np.block([[Z, I], [-I, Z]])


def tolf(A, base=1e-9):
    return base * max(1, A.shape[0]) * (1 + np.max(np.abs(A)))


# ---- postconditions (record, never raise) -------------------------------------------------------

def post_takagi(N, result):
    rep = _REP[0]
    rep.monitor("post:takagi")
    try:
        rl, U = result
        N = np.asarray(N)
        n = N.shape[0]
        t = tolf(N)
        if np.max(np.abs(U @ U.conj().T - np.eye(n))) > t:
            _viol("takagi", "not-unitary", "|UU^+ - 1| = %.2e" % np.max(np.abs(U @ U.conj().T - np.eye(n))))
        if np.min(rl) < -1e-12:
            _viol("takagi", "negative-value", "min value %.3e" % np.min(rl))
        if np.any(np.diff(rl) > 1e-9 * (1 + np.max(np.abs(rl)))):
            _viol("takagi", "not-descending", "values %s" % rl)
        err = np.max(np.abs(U @ np.diag(rl) @ U.T - N))
        rep.dev("takagi.reconstruction", err, t)
        if err > t:
            _viol("takagi", "reconstruction", "|U diag U^T - N| = %.2e" % err)
    except Exception as e:  # harness problem
        rep.error("post_takagi", e)
    return True


def post_williamson(V, result):
    rep = _REP[0]
    rep.monitor("post:williamson")
    try:
        Db, S = result
        V = np.asarray(V)
        n = V.shape[0] // 2
        t = tolf(V, 1e-8)
        O = omega(n)
        e1 = np.max(np.abs(S @ O @ S.T - O))
        if e1 > t * (1 + np.max(np.abs(S)) ** 2):
            _viol("williamson", "not-symplectic", "|S O S^T - O| = %.2e" % e1)
        if np.max(np.abs(Db - np.diag(np.diag(Db)))) > t:
            _viol("williamson", "not-diagonal", "off-diagonal %.2e" % np.max(np.abs(Db - np.diag(np.diag(Db)))))
        d = np.diag(Db)
        if np.max(np.abs(d[:n] - d[n:])) > t * 10 or np.min(d) <= 0:
            _viol("williamson", "diag-structure", "Db diagonal %s is not (nu, nu) with nu>0" % d)
        # the docstring writes V = S^T Db S, the library's own callers and tests use V = S Db S^T; the
        # property only demands that the factors multiply back, so either product is accepted
        err = min(np.max(np.abs(S @ Db @ S.T - V)), np.max(np.abs(S.T @ Db @ S - V)))
        rep.dev("williamson.reconstruction", err, t * 10)
        if err > t * 10:
            _viol("williamson", "reconstruction", "min(|S Db S^T - V|, |S^T Db S - V|) = %.2e" % err)
    except Exception as e:
        rep.error("post_williamson", e)
    return True


def post_bloch_messiah(S, result):
    rep = _REP[0]
    rep.monitor("post:bloch_messiah")
    try:
        O1, D, O2 = result
        S = np.asarray(S)
        n = S.shape[0] // 2
        t = tolf(S, 1e-7)
        O = omega(n)
        cls = (_CASE[0] or {}).get("cls", "")
        for nm, X in (("O1", O1), ("O2", O2)):
            eo = np.max(np.abs(X @ X.T - np.eye(2 * n)))
            es = np.max(np.abs(X @ O @ X.T - O))
            if eo > t:
                _viol("bloch_messiah", "not-orthogonal", "%s: |XX^T-1| = %.2e" % (nm, eo))
            if es > t:
                kind = "not-symplectic"
                _viol("bloch_messiah", kind, "%s: |X O X^T - O| = %.2e (class %s)" % (nm, es, cls))
        d = np.diag(D)
        if np.max(np.abs(D - np.diag(d))) > t:
            _viol("bloch_messiah", "not-diagonal", "D has off-diagonal entries")
        if np.max(np.abs(d[:n] * d[n:] - 1)) > t * (1 + np.max(d) ** 2) or np.min(d) <= 0:
            _viol("bloch_messiah", "diag-structure", "D = %s is not diag(d, 1/d)" % d)
        err = np.max(np.abs(O1 @ D @ O2 - S))
        rep.dev("bloch_messiah.reconstruction", err, t * (1 + np.max(np.abs(S))))
        if err > t * (1 + np.max(np.abs(S))):
            _viol("bloch_messiah", "reconstruction", "|O1 D O2 - S| = %.2e" % err)
    except Exception as e:
        rep.error("post_bloch_messiah", e)
    return True


def _chk_unitary_rec(name, V, rec, extra=1.0):
    rep = _REP[0]
    V = np.asarray(V)
    # unitary inputs of the valid classes are unitary to rounding, and the factorisations reproduce them to ~1e-13 (largest
    # deviation seen over all routines and sizes: 8e-14): 1e-11 * 2 n^2; inputs that are valid only within the routines'
    # tolerance are reproduced to the size of their own defect
    near = (_CASE[0] or {}).get("cls") in ("near_valid",)
    t = tolf(V, 1e-9 if near else 1e-11) * extra * V.shape[0]
    if name == "sun_compact" and (_CASE[0] or {}).get("cls") == "weak_coupling":
        # sun_compact obtains the last rotation angle from sqrt(1 - |U00|^2): for couplings of order 1e-8 the difference is
        # of the order of the machine precision and the angle is only good to ~1.5e-8 (precision limit of the routine, seen
        # as reconstruction errors up to 3e-8; not a wrong factorisation)
        t = max(t, 3e-7)
    err = np.max(np.abs(rec - V))
    rep.dev(name + ".reconstruction", err, t)
    if err > t:
        _viol(name, "reconstruction", "|product - U| = %.2e (size %d, class %s)" % (
            err, V.shape[0], (_CASE[0] or {}).get("cls")))


def post_rectangular(V, result):
    _REP[0].monitor("post:rectangular")
    try:
        tilist, diags, tlist = result
        N = np.asarray(V).shape[0]
        q = np.eye(N, dtype=complex)
        for i in tilist:
            q = hT(*[int(i[0]), int(i[1]), i[2], i[3], N]) @ q
        q = np.diag(diags) @ q
        for i in reversed(tlist):
            q = hTi(int(i[0]), int(i[1]), i[2], i[3], N) @ q
        _chk_unitary_rec("rectangular", V, q)
        if np.max(np.abs(np.abs(diags) - 1)) > 1e-8:
            _viol("rectangular", "phase-structure", "diagonal not unimodular")
    except Exception as e:
        _REP[0].error("post_rectangular", e)
    return True


def post_rectangular_phase_end(V, result):
    _REP[0].monitor("post:rectangular_phase_end")
    try:
        tlist, diags, none = result
        N = np.asarray(V).shape[0]
        q = np.eye(N, dtype=complex)
        for i in tlist:
            q = hT(int(i[0]), int(i[1]), i[2], i[3], N) @ q
        q = np.diag(diags) @ q
        _chk_unitary_rec("rectangular_phase_end", V, q)
        if none is not None:
            _viol("rectangular_phase_end", "signature", "third element not None")
    except Exception as e:
        _REP[0].error("post_rectangular_phase_end", e)
    return True


def post_rectangular_MZ(V, result):
    _REP[0].monitor("post:rectangular_MZ")
    try:
        tilist, diags, tlist = result
        N = np.asarray(V).shape[0]
        q = np.eye(N, dtype=complex)
        for i in tilist:
            q = hMZ(int(i[0]), int(i[1]), i[2], i[3], N) @ q
        q = np.diag(diags) @ q
        for i in reversed(tlist):
            q = hMZ(int(i[0]), int(i[1]), i[2], i[3], N).conj().T @ q
        _chk_unitary_rec("rectangular_MZ", V, q, extra=100)  # mach_zehnder() itself rounds to 1e-14 per factor
    except Exception as e:
        _REP[0].error("post_rectangular_MZ", e)
    return True


def post_rectangular_symmetric(V, result):
    _REP[0].monitor("post:rectangular_symmetric")
    try:
        tlist, diags, none = result
        N = np.asarray(V).shape[0]
        q = np.eye(N, dtype=complex)
        for i in tlist:
            if not (0 <= i[2] < 2 * np.pi + 1e-12 and 0 <= i[3] < 2 * np.pi + 1e-12):
                _viol("rectangular_symmetric", "phase-range", "phases (%r, %r) outside [0, 2pi)" % (i[2], i[3]))
            q = hMZ(int(i[0]), int(i[1]), i[2], i[3], N) @ q
        q = np.diag(diags) @ q
        _chk_unitary_rec("rectangular_symmetric", V, q, extra=100)
    except Exception as e:
        _REP[0].error("post_rectangular_symmetric", e)
    return True


def post_triangular(V, result):
    _REP[0].monitor("post:triangular")
    try:
        tlist, diags, none = result
        N = np.asarray(V).shape[0]
        q = np.diag(diags).astype(complex)
        for i in tlist:
            q = hTi(int(i[0]), int(i[1]), i[2], i[3], N) @ q
        _chk_unitary_rec("triangular", V, q)
    except Exception as e:
        _REP[0].error("post_triangular", e)
    return True


def post_triangular_compact(U, result):
    _REP[0].monitor("post:triangular_compact")
    try:
        ph = result
        m = ph["m"]
        q = np.eye(m, dtype=complex)
        for j in range(m - 1):
            q = hP(j + 1, ph["phi_ins"][j], m) @ q
            for k in range(j + 1):
                n = j - k
                q = hM(n, ph["sigmas"][n, k], ph["deltas"][n, k], m) @ q
        for j in range(m):
            q = hP(j, ph["zetas"][j], m) @ q
        _chk_unitary_rec("triangular_compact", U, q, extra=10)
    except Exception as e:
        _REP[0].error("post_triangular_compact", e)
    return True


def post_rectangular_compact(U, result):
    _REP[0].monitor("post:rectangular_compact")
    try:
        ph = result
        m = ph["m"]
        q = np.eye(m, dtype=complex)
        for j in range(0, m - 1, 2):
            q = hP(j, ph["phi_ins"][j], m) @ q
        for layer in range(m):
            if (layer + m + 1) % 2 == 0:
                q = hP(m - 1, ph["phi_edges"][m - 1, layer], m) @ q
            for mode in range(layer % 2, m - 1, 2):
                q = hM(mode, ph["sigmas"][mode, layer], ph["deltas"][mode, layer], m) @ q
        for j, phi_j in ph["phi_outs"].items():
            q = hP(j, phi_j, m) @ q
        _chk_unitary_rec("rectangular_compact", U, q, extra=10)
    except Exception as e:
        _REP[0].error("post_rectangular_compact", e)
    return True


def post_sun_compact(U, result):
    _REP[0].monitor("post:sun_compact")
    try:
        params, gphase = result
        U = np.asarray(U)
        n = U.shape[0]
        q = np.eye(n, dtype=complex)
        for modes, p in params:
            md1, md2 = int(modes[0]), int(modes[1])
            if md2 != md1 + 1 or not (0 <= md1 < n - 1):
                _viol("sun_compact", "mode-structure", "modes %s" % (modes,))
                return True
            q = q @ hSU2(n, md1, p)
        if gphase is not None:
            q = np.exp(1j * gphase / n) * q
        _chk_unitary_rec("sun_compact", U, q, extra=100)
    except Exception as e:
        _REP[0].error("post_sun_compact", e)
    return True


def post_graph_embed(A, mean_photon_per_mode, make_traceless, result):
    rep = _REP[0]
    rep.monitor("post:graph_embed")
    try:
        vals, U = result
        A = np.asarray(A)
        n = A.shape[0]
        if make_traceless:
            A = A - np.trace(A) * np.eye(n) / n
        s = np.tanh(-vals)
        B = U @ np.diag(s) @ U.T
        nb = np.linalg.norm(B)
        na = np.linalg.norm(A)
        if na > 1e-12:
            c = nb / na
            err = np.max(np.abs(B - c * A))
            rep.dev("graph_embed.proportionality", err, 1e-7 * n)
            if err > 1e-7 * n * (1 + nb):
                _viol("graph_embed", "proportionality", "state matrix not proportional to A: %.2e" % err)
            mp = np.sum(np.sinh(vals) ** 2) / n
            if abs(mp - mean_photon_per_mode) > 1e-6 * (1 + mean_photon_per_mode):
                _viol("graph_embed", "mean-photon", "mean photon/mode %.8f != requested %.8f" % (mp, mean_photon_per_mode))
        if np.max(np.abs(U @ U.conj().T - np.eye(n))) > 1e-8 * n:
            _viol("graph_embed", "not-unitary", "U not unitary")
    except Exception as e:
        rep.error("post_graph_embed", e)
    return True


def post_bipartite_graph_embed(A, mean_photon_per_mode, result):
    rep = _REP[0]
    rep.monitor("post:bipartite_graph_embed")
    try:
        vals, u, v = result
        A = np.asarray(A)
        n = A.shape[0]
        s = np.tanh(-vals)
        B = u @ np.diag(s) @ v.T
        nb, na = np.linalg.norm(B), np.linalg.norm(A)
        if na > 1e-12:
            c = nb / na
            err = np.max(np.abs(B - c * A))
            rep.dev("bipartite_graph_embed.proportionality", err, 1e-7 * n)
            if err > 1e-7 * n * (1 + nb):
                _viol("bipartite_graph_embed", "proportionality", "u diag v^T not proportional to A: %.2e" % err)
            mp = np.sum(np.sinh(vals) ** 2) / n
            if abs(mp - mean_photon_per_mode) > 1e-6 * (1 + mean_photon_per_mode):
                _viol("bipartite_graph_embed", "mean-photon", "mean photon/mode %.8f != %.8f" % (mp, mean_photon_per_mode))
        for nm, X in (("u", u), ("v", v)):
            if np.max(np.abs(X @ X.conj().T - np.eye(n))) > 1e-8 * n:
                _viol("bipartite_graph_embed", "not-unitary", nm + " not unitary")
    except Exception as e:
        rep.error("post_bipartite_graph_embed", e)
    return True


class PostBroken(Exception):
    pass


POSTS = {
    "takagi": post_takagi, "williamson": post_williamson, "bloch_messiah": post_bloch_messiah,
    "rectangular": post_rectangular, "rectangular_phase_end": post_rectangular_phase_end,
    "rectangular_MZ": post_rectangular_MZ, "rectangular_symmetric": post_rectangular_symmetric,
    "triangular": post_triangular, "triangular_compact": post_triangular_compact,
    "rectangular_compact": post_rectangular_compact, "sun_compact": post_sun_compact,
    "graph_embed": post_graph_embed, "bipartite_graph_embed": post_bipartite_graph_embed,
}


def install_contracts(rep):
    """Attach the postconditions to the real functions (module attribute + every `from dec import f` alias)."""
    setup_paths()
    import icontract
    import sys
    import strawberryfields.decompositions as dec
    import strawberryfields  # noqa

    _REP[0] = rep
    originals = {}
    for name, post in POSTS.items():
        orig = getattr(dec, name)
        if getattr(orig, "_vf_wrapped", False):
            continue
        wrapped = icontract.ensure(post, error=PostBroken)(orig)
        wrapped._vf_wrapped = True
        wrapped.__wrapped_orig__ = orig
        originals[name] = orig
        setattr(dec, name, wrapped)
        for mod in list(sys.modules.values()):
            if mod is None or mod is dec or not getattr(mod, "__name__", "").startswith("strawberryfields"):
                continue
            if getattr(mod, name, None) is orig:
                setattr(mod, name, wrapped)
    return originals


# ---- workload -----------------------------------------------------------------------------------

UNITARY_FNS = ["rectangular", "rectangular_phase_end", "rectangular_MZ", "rectangular_symmetric", "triangular",
               "triangular_compact", "rectangular_compact", "sun_compact"]


def plan(tier, seed, scale=1.0):
    n = int((1000 if tier == "quick" else 25000) * scale)
    return [{"n": n, "timeout": 6000, "maxsize": 6 if tier == "quick" else 8} for _ in range(16)]


def run_case(case, rep, dec):
    """case = {fn, cls, M (encoded), valid, kw}"""
    from ..common import dec as jdec

    _CASE[0] = case
    fn = case["fn"]
    M = jdec(case["M"])
    kw = case.get("kw", {})
    valid = case["valid"]
    n = M.shape[0]
    ident = M.shape[0] == M.shape[1] and np.allclose(M, np.eye(n))
    rep.case([fn, case["cls"], rnd(M, 5)], valid is True and not ident and n >= 2,
             sample={"fn": fn, "cls": case["cls"], "shape": list(M.shape), "valid": valid}
             if rep.evaluations % 400 == 7 else None)
    rep.seen("routine-x-class", "%s/%s" % (fn, case["cls"]))
    rep.observe("calls:" + fn)
    f = getattr(dec, fn)
    try:
        f(M, **kw)
        raised = None
    except ValueError as e:
        raised = e
    except PostBroken as e:  # never raised (posts return True) but keep the net
        raised = None
    except Exception as e:
        raised = e
    if valid is True:
        if raised is not None:
            kind = "rejects-valid-input" if isinstance(raised, ValueError) else "crash-on-valid-input"
            if fn == "sun_compact" and isinstance(raised, ValueError) and _near_unit_pivot(M):
                # mechanism discriminator for the recorded finding: _su3_parameters treats a pivot as
                # exactly 1 (np.isclose default, ~1e-5) while _su2_parameters demands det = 1 to 1e-10
                kind = "rejects-valid-input:pivot-within-1e-5-of-1"
            rep.violation(fn, kind, "%s on valid %s input of size %d: %s: %s" % (
                fn, case["cls"], n, type(raised).__name__, str(raised)[:120]), case)
    elif valid is False:
        rep.monitor("neg:raises")
        if raised is None:
            rep.violation(fn, "accepts-invalid-input", "%s accepted an invalid input (%s) without error" % (
                fn, case["cls"]), case)
        elif not isinstance(raised, ValueError):
            rep.violation(fn, "wrong-exception", "%s raised %s instead of ValueError on %s" % (
                fn, type(raised).__name__, case["cls"]), case)


def _near_unit_pivot(M):
    n = M.shape[0]
    SU = M * np.linalg.det(M) ** (-1.0 / n)
    a = np.abs(SU - 1)
    b = np.abs(np.abs(SU) - 1)
    return bool(np.any((a > 1e-10) & (a < 1.1e-5)) or np.any((b > 1e-10) & (b < 1.1e-5)))


def gen_case(rng, maxsize):
    from ..common import enc

    fam = rng.choice(["unitary", "unitary", "unitary", "takagi", "williamson", "bm", "graph", "bipartite"])
    if fam == "unitary":
        fn = str(rng.choice(UNITARY_FNS))
        lo = 3 if fn == "sun_compact" else 1
        n = int(rng.integers(lo, maxsize + 1))
        cls, U, valid = gen.unitary_class(rng, n)
        if fn == "sun_compact" and valid is False and cls in ("nonsquare",):
            pass
        return {"fn": fn, "cls": cls, "M": enc(U), "valid": valid}
    if fam == "takagi":
        n = int(rng.integers(1, maxsize + 1))
        cls, A, valid = gen.symmetric_class(rng, n)
        return {"fn": "takagi", "cls": cls, "M": enc(A), "valid": valid}
    if fam == "williamson":
        n = int(rng.integers(1, max(2, maxsize // 2) + 1))
        cls, V, valid = gen.covariance_class(rng, n)
        return {"fn": "williamson", "cls": cls, "M": enc(V), "valid": valid}
    if fam == "bm":
        n = int(rng.integers(1, max(2, maxsize // 2) + 1))
        cls, S, valid = gen.symplectic_class(rng, n)
        return {"fn": "bloch_messiah", "cls": cls, "M": enc(S), "valid": valid}
    if fam == "graph":
        n = int(rng.integers(2, maxsize + 1))
        cls, A, valid = gen.adjacency_class(rng, n)
        return {"fn": "graph_embed", "cls": cls, "M": enc(A), "valid": valid,
                "kw": {"mean_photon_per_mode": float(rng.choice([0.1, 0.5, 1.0, 2.3])),
                       "make_traceless": bool(rng.integers(2))}}
    n = int(rng.integers(1, max(2, maxsize // 2) + 1))
    cls, A, valid = gen.bipartite_class(rng, n)
    return {"fn": "bipartite_graph_embed", "cls": cls, "M": enc(A), "valid": valid,
            "kw": {"mean_photon_per_mode": float(rng.choice([0.1, 0.5, 1.0, 2.3]))}}


def _reach_functions(dec):
    names = ["nullTi", "nullT", "nullMZi", "nullMZ", "takagi", "bloch_messiah", "williamson", "_build_staircase",
             "_su2_parameters", "_su3_parameters", "triangular_compact", "_rectangular_compact_init", "_absorb_zeta"]
    out = []
    for n in names:
        f = getattr(dec, n, None)
        if f is not None:
            out.append(getattr(f, "__wrapped_orig__", f))
    return out


def run_shard(shard, rep):
    setup_paths()
    import strawberryfields.decompositions as dec

    install_contracts(rep)
    rng = np.random.default_rng([shard["seed"], shard["id"], 17])
    with ReachMonitor(_reach_functions(dec)) as rm:
        for _ in range(shard["n"]):
            case = gen_case(rng, shard["maxsize"])
            try:
                run_case(case, rep, dec)
            except Exception as e:
                rep.error("run_case", e)
        # calls coming from the real compile paths (contracts stay installed)
        try:
            incidental(rep, rng)
        except Exception as e:
            rep.error("incidental", e)
        rm.flush(rep)


def incidental(rep, rng):
    """Drive decompositions through ops/compilers so the installed contracts see those calls too."""
    import strawberryfields as sf
    from strawberryfields import ops
    from scipy.stats import unitary_group

    _CASE[0] = {"fn": "incidental", "cls": "via-ops", "M": None, "valid": True}
    before = sum(rep.monitors.values())
    for mesh in ["rectangular", "rectangular_phase_end", "rectangular_symmetric", "triangular",
                 "rectangular_compact", "triangular_compact", "sun_compact"]:
        n = int(rng.integers(3, 6))
        U = unitary_group.rvs(n, random_state=int(rng.integers(2 ** 31)))
        prog = sf.Program(n)
        with prog.context as q:
            ops.Interferometer(U, mesh=mesh) | q
        prog.compile(compiler="gaussian")
    S = gen.random_symplectic(rng, 2, active=True)
    prog = sf.Program(2)
    with prog.context as q:
        ops.GaussianTransform(S) | q
        ops.Gaussian(S @ S.T) | q
    prog.compile(compiler="gaussian")
    rep.observe("incidental-contract-evaluations", sum(rep.monitors.values()) - before)


def replay(case, rep):
    setup_paths()
    import strawberryfields.decompositions as dec

    install_contracts(rep)
    run_case(case, rep, dec)
