"""C01 — all simulator backends compute the same physics for the same program.

Lock-step shadow: the generated program is run through the real LocalEngine on gaussian, bosonic, fock(pure)
and fock(mixed); after every applied command (CommandTap, outside Operation.apply) the observer advances the
RefGauss shadow by the command (class, evaluated parameters, dagger, ordered modes) and compares the live
state read through backend.state(): Gaussian/bosonic exactly (1e-9), Fock through quadrature moments computed
by the harness from the tensor and single-mode reduced density matrices against The Walrus applied to the
reference marginals, within the truncation budget derived from the reference tail mass.  A second, source
shadow follows the user's uncompiled program and is compared with every backend's final Result.state.
"""
import numpy as np

from ..common import setup_paths, rnd
from .. import refgauss as rg, gen

PROPERTY = "C01"
RULE = ("seeded programs over the operations shared by >= 2 backends: 1-3 modes, a random entangling / displaced / mixed "
        "prefix followed by 3-9 commands (preparations, one- and two-mode Gaussian gates on every ordered pair, dagger "
        "forms, loss / thermal loss, interferometers, Gaussian transforms and preparations on ordered subsets), "
        "boundary-heavy parameters (0, +-1e-14, multiples of pi/4), hbar in {2, 1, 0.5}; every program runs on every backend "
        "configuration that accepts it. Plus the exhaustive sweep: every two-mode gate x every ordered pair of a "
        "3-mode register x pure/mixed. non-trivial = the program contains >= 1 two-mode interaction after the prefix and "
        "was compared on >= 2 backend configurations; distinct = rounded program + hbar.")
ASSUMPTIONS = [
    "RefGauss (generator exponentials of the documented operators) is the oracle; The Walrus converts reference "
    "marginals to Fock probabilities/density matrices (SF also depends on The Walrus: a Walrus bug common to both "
    "sides is invisible)",
    "Fock comparisons use tolerance 20*sqrt(tau*) + 1e-7 with tau* the running maximum of the reference tail mass; "
    "cases with tau* > 1e-4 are discarded for the Fock leg (counted)",
    "TensorFlow backend is absent from the sandbox and not executed",
]
REQUIRED_MONITORS = ["shadow:gaussian", "shadow:bosonic", "shadow:fock-pure", "shadow:fock-mixed",
                     "shadow:fock-pure(state still in ket representation)",
                     "final:source-shadow", "pure-vs-mixed", "pair-sweep",
                     "nongauss:bosonic-vs-reffock", "nongauss:fock-pure-vs-reffock", "nongauss:fock-mixed-vs-reffock"]
MAX_SKIP_FRACTION = 0.35

TOL = 1e-9


def load():
    setup_paths()
    from .. import simrun, sfutil

    return simrun, sfutil


class ShadowObserver:
    """Applied-stream shadow for one run."""

    def __init__(self, rep, case, conf, n, hbar, simrun):
        self.rep, self.case, self.conf, self.n, self.hbar = rep, case, conf, n, hbar
        self.simrun = simrun
        self.lg = rg.Labelled(n)
        self.g = self.lg.g
        self.valid = True
        self.diverged = False
        self.tau_star = 0.0
        self.D = conf.get("cutoff_dim")
        self.discard = False

    def on_start(self, prog, backend, options):
        pass

    def on_finish(self, res, eng):
        pass

    def label(self):
        c = self.conf
        if c["backend"] == "fock":
            return "fock-pure" if c.get("pure", True) else "fock-mixed"
        return c["backend"]

    def on_command(self, ev, before, after):
        if not self.valid or self.diverged:
            return
        rep = self.rep
        if ev["exc"] is not None:
            self.valid = False
            return
        try:
            ok = self.lg.apply(ev["name"], ev["p"], ev["modes"], ev["dagger"], self.hbar)
            if ev["name"] in ("_New_modes", "_Delete"):
                rep.observe("shadow.structural:%s@%s" % (ev["name"], self.label()))
        except Exception as e:
            rep.error("shadow.apply_op", e)
            ok = False
        if not ok:
            self.valid = False
            rep.observe("shadow.unsupported-op:" + ev["name"])
            return
        if after is None:
            self.valid = False
            return
        lab = self.label()
        rep.seen("op-modes-backend", "%s%s@%s%s" % (ev["name"], tuple(ev["modes"]), lab, ".H" if ev["dagger"] else ""))
        locus = "%s.%s" % (self.conf["backend"], ev["name"])
        kind = "state-mismatch"
        if ev["name"] in ("MZgate",) and self.conf["backend"] == "fock":
            # mechanism discriminators for the recorded Gate.apply finding
            p0 = ev["p"][0]
            if np.all(np.asarray(p0) == 0):
                kind = "state-mismatch:p0-is-zero"
            elif ev["dagger"]:
                kind = "state-mismatch:dagger"
        if after.kind in ("gaussian", "bosonic"):
            rep.monitor("shadow:" + lab)
            dm = np.max(np.abs(after.mu - self.g.mu))
            dV = np.max(np.abs(after.V - self.g.V))
            scale = 1 + np.max(np.abs(self.g.V))
            rep.dev("%s.moments" % lab, max(dm, dV) / scale, TOL)
            if max(dm, dV) > TOL * scale:
                self.diverged = True
                rep.violation(locus, kind, "after %s%s on modes %s the %s state differs from the reference by %.3e "
                              "(means %.3e, cov %.3e)" % (ev["name"], ".H" if ev["dagger"] else "", ev["modes"], lab,
                                                          max(dm, dV), dm, dV), self.case,
                              {"event": ev["seq"], "params": rnd(ev["p"], 8), "conf": self.conf})
            if after.kind == "bosonic" and len(after.w) == 1:
                if abs(after.w[0] - 1) > 1e-9:
                    rep.violation(locus, "weights", "single-component bosonic state with weight %r" % after.w[0], self.case)
        else:
            tau = self.simrun.tail_mass(self.g, self.D)
            self.tau_star = max(self.tau_star, tau)
            if self.tau_star > 1e-4:
                self.discard = True
                self.valid = False
                rep.observe("fock.discarded-truncation-dominated")
                return
            rep.monitor("shadow:" + lab)
            if after.pure:
                rep.monitor("shadow:fock-pure(state still in ket representation)")
                rep.seen("ket-representation:op-modes", "%s%s" % (ev["name"], tuple(ev["modes"])))
            budget = self.simrun.fock_budget(self.tau_star)
            mu, V = after.fock_moments()
            dm = np.max(np.abs(mu - self.g.mu))
            dV = np.max(np.abs(V - self.g.V))
            dev = max(dm, dV)
            if dev <= budget:
                rep.dev("%s.moments/budget(held cases)" % lab, dev / budget, 1.0)
            if dev > budget:
                self.diverged = True
                rep.violation(locus, kind, "after %s%s on modes %s the %s state's quadrature moments differ from the "
                              "reference by %.3e (budget %.3e, tail mass %.2e, cutoff %d)" % (
                                  ev["name"], ".H" if ev["dagger"] else "", ev["modes"], lab, dev, budget, self.tau_star,
                                  self.D), self.case, {"event": ev["seq"], "params": rnd(ev["p"], 8), "conf": self.conf})
                return
            # single-mode reduced density matrices against The Walrus on the reference marginals
            from thewalrus.quantum import density_matrix

            for m in ([] if ev["name"] == "_Delete" else self.lg.pos(ev["modes"])):
                mu1, V1 = self.g.reduced([m])
                ref = density_matrix(mu1, V1, cutoff=self.D, hbar=2)
                got = after.reduced_matrix([m])
                d = np.max(np.abs(got - ref))
                rep.dev("%s.reduced-dm/budget" % lab, d / budget, 1.0)
                if d > budget:
                    self.diverged = True
                    rep.violation(locus, kind + ":reduced-dm", "after %s on %s the reduced density matrix of mode %d "
                                  "differs from the reference by %.3e (budget %.3e)" % (ev["name"], ev["modes"], m, d, budget),
                                  self.case, {"event": ev["seq"], "conf": self.conf})
                    return


def build_prog(sfutil, spec):
    return sfutil.build_program(spec["n"], spec["cmds"])


def two_mode_after_prefix(spec):
    seen_prefix = True
    cnt = 0
    for c in spec["cmds"][spec.get("prefix_len", 0):]:
        if len(c["m"]) >= 2:
            cnt += 1
    return cnt >= 1


def run_case(case, rep, env):
    simrun, sfutil, runner = env
    import strawberryfields as sf

    spec = case["spec"]
    hbar = case["hbar"]
    sf.hbar = hbar
    try:
        n = spec["n"]
        confs = []
        if simrun.spec_accepts(spec, simrun.GAUSSIAN_OK):
            confs.append({"backend": "gaussian"})
        if simrun.spec_accepts(spec, simrun.BOSONIC_OK):
            confs.append({"backend": "bosonic"})
        if case.get("fock") and simrun.spec_accepts(spec, simrun.FOCK_OK):
            D = case["cutoff"]
            confs.append({"backend": "fock", "cutoff_dim": D, "pure": True})
            confs.append({"backend": "fock", "cutoff_dim": D, "pure": False})
        # source shadow (user's uncompiled program)
        lsrc = rg.Labelled(n)
        gsrc = lsrc.g
        src_ok = True
        for c in spec["cmds"]:
            from ..common import dec as jdec

            p = [jdec(x) for x in c["p"]]
            if not lsrc.apply(c["op"], p, c["m"], c.get("dag", False), hbar):
                src_ok = False
                break
        finals = {}
        compared = 0
        for conf in confs:
            prog = build_prog(sfutil, spec)
            obs = ShadowObserver(rep, case, conf, n, hbar, simrun)
            runner.observers = [obs]
            opts = {k: v for k, v in conf.items() if k != "backend"}
            res, eng = runner.run(prog, conf["backend"], opts)
            lab = obs.label()
            if isinstance(res, Exception):
                nm = type(res).__name__
                if nm in ("NotApplicableError", "NotImplementedError", "CircuitError"):
                    rep.observe("rejected:%s:%s" % (lab, nm))
                else:
                    rep.violation(conf["backend"] + ".run", "exception:" + nm, "%s raised %s: %s" % (
                        lab, nm, str(res)[:200]), case, {"conf": conf})
                continue
            compared += 1
            if obs.discard:
                continue
            # final state vs source shadow
            if src_ok and not obs.diverged:
                snap = simrun.Snap(eng.backend)
                if snap.kind == "fock":
                    mu, V = snap.fock_moments()
                    tau = max(obs.tau_star, simrun.tail_mass(gsrc, conf["cutoff_dim"]))
                    if tau > 1e-4:
                        continue
                    tol = simrun.fock_budget(tau)
                    finals[lab] = snap
                else:
                    mu, V = snap.mu, snap.V
                    tol = TOL * (1 + np.max(np.abs(gsrc.V)))
                rep.monitor("final:source-shadow")
                dev = max(np.max(np.abs(mu - gsrc.mu)), np.max(np.abs(V - gsrc.V)))
                if dev > tol:
                    rep.violation(conf["backend"] + ".final", "final-state-mismatch",
                                  "final %s state differs from the reference interpretation of the source program by %.3e "
                                  "(tolerance %.3e) although every applied command matched: front-end / compiler defect" % (
                                      lab, dev, tol), case, {"conf": conf})
        if "fock-pure" in finals and "fock-mixed" in finals:
            rep.monitor("pure-vs-mixed")
            a, b = finals["fock-pure"], finals["fock-mixed"]
            d = np.max(np.abs(a.dm - b.dm))
            rep.dev("fock.pure-vs-mixed", d, 1e-8)
            if d > 1e-8:
                rep.violation("fock.representation", "pure-vs-mixed", "the pure and mixed representations of the Fock "
                              "backend end in different states (max |diff| = %.3e)" % d, case)
        nt = two_mode_after_prefix(spec) and compared >= 2
        rep.case([rnd(spec, 6), hbar], nt, sample={"hbar": hbar, "spec": spec, "backends": [c["backend"] for c in confs]}
                 if rep.evaluations % 97 == 5 else None)
    finally:
        sf.hbar = 2


def gen_case(rng, simrun, fock):
    n = int(rng.integers(1, 4))
    if fock:
        allow = simrun.FOCK_OK & simrun.GAUSSIAN_OK
        keep_pure = rng.random() < 0.6
        if keep_pure:
            # gates only, from vacuum: the pure representation of the Fock backend stays pure, so its own
            # code paths (apply_twomode_gate / apply_gate_BLAS pure branches) are the ones compared
            allow = allow - set(simrun.PREPS) - {"LossChannel", "Gaussian"}
        spec = simrun.gen_program(rng, gen, n=n, small=True, allow=allow, length=int(rng.integers(2, 7)),
                                  prefix=not keep_pure)
        if keep_pure:
            pre = []
            for m in range(n):
                pre.append({"op": "Dgate", "p": [float(rng.uniform(0.05, 0.3)), float(rng.uniform(0, 6.28))], "m": [m], "dag": False})
                pre.append({"op": "Sgate", "p": [float(rng.uniform(-0.2, 0.2)), float(rng.uniform(0, 6.28))], "m": [m], "dag": False})
            for _ in range(n - 1):
                a, b = (int(x) for x in rng.choice(n, 2, replace=False))
                pre.append({"op": "BSgate", "p": [float(rng.uniform(0.3, 1.2)), float(rng.uniform(0, 6.28))], "m": [a, b], "dag": False})
            spec["cmds"] = pre + spec["cmds"]
        if n <= 2 and rng.random() < 0.25:
            # subsystems created and deleted in the middle of the program (at most 3 Fock modes alive)
            spec = simrun.extend_with_new_del(rng, gen, spec, allow, True, 3, with_new=rng.random() < 0.8, with_del=rng.random() < 0.6)
            n = 3
        return {"spec": spec, "hbar": float(rng.choice([2.0, 1.0, 0.5])), "fock": True,
                "cutoff": 10 if n <= 2 else 8}
    allow = simrun.GAUSSIAN_OK if rng.random() < 0.5 else simrun.BOSONIC_OK
    spec = simrun.gen_program(rng, gen, n=int(rng.integers(1, 5)), small=False, allow=allow)
    if rng.random() < 0.25:
        spec = simrun.extend_with_new_del(rng, gen, spec, allow, False, 6, with_new="New" in allow and rng.random() < 0.8,
                                          with_del=rng.random() < 0.6)
    return {"spec": spec, "hbar": float(rng.choice([2.0, 1.0, 0.5])), "fock": False}


def pair_sweep_cases(rng, simrun):
    out = []
    for nm in simrun.TWO_GATES:
        for a in range(3):
            for b in range(3):
                if a == b:
                    continue
                for dag in (False, True):
                    cmds = [{"op": "Sgate", "p": [0.2, 0.4], "m": [0], "dag": False},
                            {"op": "Dgate", "p": [0.25, 1.1], "m": [1], "dag": False},
                            {"op": "Dgate", "p": [0.15, 0.3], "m": [2], "dag": False},
                            {"op": "Sgate", "p": [-0.15, 2.0], "m": [2], "dag": False},
                            {"op": "BSgate", "p": [0.6, 0.3], "m": [0, 1], "dag": False},
                            {"op": "BSgate", "p": [0.9, 1.3], "m": [1, 2], "dag": False},
                            {"op": nm, "p": simrun.gen_params(rng, nm, True, gen), "m": [a, b], "dag": dag}]
                    out.append({"spec": {"n": 3, "cmds": cmds}, "hbar": 2.0, "fock": True, "cutoff": 8, "sweep": True})
    return out


def run_nongauss_case(case, rep):
    """Cat / number states followed by Gaussian gates and loss: every prefix of the program is run on the bosonic and on the
    Fock backend (pure and mixed) and the simulator state is compared with RefFock.  The Fock content of the bosonic state
    is computed by the harness from the raw components (vf.nongauss), not by a state method."""
    import strawberryfields as sf
    from strawberryfields import ops
    from .. import nongauss as ng, simrun

    n = case["n"]
    Dref = 28 if n == 1 else 22
    Dc = 9 if n == 2 else 12  # comparison cutoff
    f = ng.rf.FState(n, Dref)
    nprefix = 0
    tau_star = 0.0  # running maximum of the reference tail mass beyond the Fock backend's cutoff
    for k, c in enumerate(case["cmds"]):
        ng.ref_apply(f, c)
        tau_star = max(tau_star, f.tail(14 if n == 2 else 18))
        # compare once all modes that are going to be prepared have been prepared
        if k + 1 < len(case["cmds"]) and case["cmds"][k + 1]["op"] in ("Catstate", "Fock", "Coherent", "GKP"):
            continue
        if f.tail(Dref - 4) > 1e-9:
            rep.skip("nongauss reference truncation")
            return
        sub = dict(case, cmds=case["cmds"][: k + 1])
        ref = ng.ref_dm(f, Dc)
        nprefix += 1
        fock_only = any(x["op"] in ng.FOCK_ONLY for x in sub["cmds"])
        for conf in ({"backend": "bosonic"}, {"backend": "fock", "cutoff_dim": 14 if n == 2 else 18, "pure": True},
                     {"backend": "fock", "cutoff_dim": 14 if n == 2 else 18, "pure": False}):
            if fock_only and conf["backend"] == "bosonic":
                continue  # Kerr, cross-Kerr and cubic phase gates are accepted by the Fock backend only
            lab = conf["backend"] if conf["backend"] != "fock" else ("fock-pure" if conf["pure"] else "fock-mixed")
            locus = "%s.%s" % (conf["backend"], c["op"])
            try:
                eng = sf.Engine(conf["backend"], backend_options={k2: v for k2, v in conf.items() if k2 != "backend"})
                eng.run(ng.build(sf, ops, sub))
                snap = simrun.Snap(eng.backend)
            except Exception as e:
                rep.violation(conf["backend"] + ".run", "exception:" + type(e).__name__, "%s raised %s on a non-Gaussian program: %s"
                              % (lab, type(e).__name__, str(e)[:160]), case, {"prefix": k + 1})
                return
            if snap.kind == "bosonic":
                got = ng.bosonic_dm(snap, Dc)
                # the bosonic number-state preparation is an approximation by construction (quality parameter r = 0.05)
                tol = 3e-2 if case.get("approx") else 1e-7 + 100 * f.tail(Dref - 4)
                rep.monitor("nongauss:bosonic-vs-reffock" + ("(approximate Fock preparation)" if case.get("approx") else ""))
            else:
                got = ng.fock_dm(snap, Dc)
                # density-matrix entries of cat / GKP states under truncated displacement and squeezing matrices: constant 60
                # and floor 1e-6 (calibrated on the thorough tier: largest deviation / (20 sqrt(tau) + 1e-7) seen was 1.3)
                tol = 3 * simrun.fock_budget(max(tau_star, f.tail(snap.D))) + 1e-6
                rep.monitor("nongauss:%s-vs-reffock" % lab)
            d = float(np.max(np.abs(got - ref)))
            rep.dev("nongauss.%s/tol" % lab, d / tol, 1.0)
            rep.seen("nongauss:op-backend", "%s@%s" % (c["op"], lab))
            if d > tol:
                rep.violation(locus, "state-mismatch:non-gaussian", "after %s%s on modes %s (command %d of a cat/number-state program) "
                              "the %s density matrix differs from the Fock-space reference by %.3e (tolerance %.3e)"
                              % (c["op"], ".H" if c.get("dag") else "", c["m"], k + 1, lab, d, tol), case, {"prefix": k + 1, "conf": conf})
                return
    rep.case(["nongauss", rnd(case["cmds"], 6)], nprefix >= 2)


def plan(tier, seed, scale=1.0):
    if tier == "quick":
        ng, nf, nn = int(60 * scale), int(10 * scale), max(1, int(4 * scale))
    else:
        ng, nf, nn = int(1200 * scale), int(120 * scale), int(60 * scale)
    shards = []
    for i in range(16):
        shards.append({"ng": ng, "nf": nf, "nn": nn, "timeout": 6000, "sweep_part": i})
    return shards


def run_shard(shard, rep):
    simrun, sfutil = load()
    runner = simrun.SimRunner()
    env = (simrun, sfutil, runner)
    rng = np.random.default_rng([shard["seed"], shard["id"], 1])
    for _ in range(shard["ng"]):
        case = gen_case(rng, simrun, False)
        try:
            run_case(case, rep, env)
        except Exception as e:
            rep.error("run_case", e)
    for _ in range(shard["nf"]):
        case = gen_case(rng, simrun, True)
        try:
            run_case(case, rep, env)
        except Exception as e:
            rep.error("run_case", e)
    from .. import nongauss

    # (these cases run whole prefixes on fresh engines and look at the final simulator state only: the lock-step tap is off)
    runner.observers = []
    runner.tap.uninstall()
    for i in range(shard.get("nn", 0) + 1):
        # alternately: cat / number states under Gaussian gates (bosonic and fock), and GKP states with Kerr, cross-Kerr,
        # cubic / quadratic phase gates and two-mode squeezing (fock pure vs mixed vs RefFock; bosonic where accepted)
        case = nongauss.gen_case(rng, family="fock-ops" if i % 2 else "gaussian-ops")
        case["nongauss"] = True
        try:
            run_nongauss_case(case, rep)
        except Exception as e:
            rep.error("run_nongauss_case", e)
    runner.tap.install()
    sweep = pair_sweep_cases(np.random.default_rng([shard["seed"], 101]), simrun)
    mine = [c for i, c in enumerate(sweep) if i % 16 == shard["sweep_part"]]
    if shard.get("tier") == "quick":
        mine = mine[:3]
    for case in mine:
        try:
            run_case(case, rep, env)
            rep.monitor("pair-sweep")
        except Exception as e:
            rep.error("run_case", e)


def replay(case, rep):
    if case.get("nongauss"):
        load()
        return run_nongauss_case(case, rep)
    simrun, sfutil = load()
    runner = simrun.SimRunner()
    run_case(case, rep, (simrun, sfutil, runner))
