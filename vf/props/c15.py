"""C15 — physical predictions are independent of the hbar convention.

Metamorphic relation observed at two points: (a) the backend API is hbar-free, so the BackendTap call streams
(method, numeric arguments) recorded while running the same program at two values of hbar - with dimensionful
front-end arguments rescaled by their documented units - must be identical to 1e-12 (this localises the operation
whose rescaling is wrong); (b) Result.state observables: dimensionless quantities (Fock probabilities, mean photon
numbers, fidelities, parity) unchanged, quadrature means / covariances / quad_expectation / Wigner function scaled
by sqrt(hbar), hbar.
"""
import numpy as np

from ..common import setup_paths, rnd, enc, dec as jdec
from .. import gen

PROPERTY = "C15"
RULE = ("seeded programs of 1-3 modes (Gaussian gates, position/momentum-unit gates Xgate / Zgate, Pgate / CXgate / CZgate, "
        "Gaussian(V, r) preparations, homodyne post-selection, MSgate on bosonic, Vgate on fock, graph embeddings, loss) run at "
        "pairs of hbar from {0.3, 0.5, 1, 1.7, 2, 4} with Xgate / Zgate / select scaled by sqrt(hbar), Gaussian(V, r) by hbar and "
        "sqrt(hbar), Vgate by 1/sqrt(hbar); backends gaussian, bosonic, fock(pure/mixed). non-trivial = the program contains "
        ">= 1 dimensionful parameter; distinct = rounded program + hbar pair + backend.")
ASSUMPTIONS = [
    "documented units: Xgate/Zgate/MeasureHomodyne select in units of sqrt(hbar); Gaussian(V, r) in hbar / sqrt(hbar); the cubic "
    "phase gamma scales as 1/sqrt(hbar); Pgate / CXgate / CZgate parameters are hbar-free",
    "backend calls are compared after sorting nothing: the engine applies commands in program order",
]
REQUIRED_MONITORS = ["stream:gaussian", "stream:bosonic", "stream:fock", "observables:gaussian", "observables:bosonic",
                     "observables:fock", "deferred-query:gaussian", "deferred-query:bosonic", "deferred-query:fock"]

HBARS = [0.3, 0.5, 1.0, 1.7, 2.0, 4.0]
API = ["prepare_vacuum_state", "prepare_coherent_state", "prepare_squeezed_state", "prepare_displaced_squeezed_state",
       "prepare_thermal_state", "prepare_gaussian_state", "prepare_fock_state", "prepare_ket_state", "rotation", "displacement",
       "squeeze", "beamsplitter", "mzgate", "two_mode_squeeze", "loss", "thermal_loss", "measure_homodyne", "measure_heterodyne",
       "measure_fock", "cubic_phase", "kerr_interaction", "cross_kerr_interaction", "mb_squeeze_avg", "passive", "gaussian_gate"]


def load():
    setup_paths()
    import strawberryfields as sf
    from strawberryfields import ops
    from .. import simrun, sfutil
    from strawberryfields.backends.gaussianbackend import GaussianBackend
    from strawberryfields.backends.bosonicbackend.backend import BosonicBackend
    from strawberryfields.backends.fockbackend import FockBackend

    return {"sf": sf, "ops": ops, "simrun": simrun, "sfutil": sfutil,
            "classes": {"gaussian": GaussianBackend, "bosonic": BosonicBackend, "fock": FockBackend}}


class BackendTap:
    """Wraps the public API methods of one backend class; records (method, numeric args)."""

    def __init__(self, cls):
        self.cls = cls
        self.calls = []
        self.saved = {}

    def __enter__(self):
        for name in API:
            orig = self.cls.__dict__.get(name)
            if orig is None:
                continue
            self.saved[name] = orig
            tap = self

            def mk(name, orig):
                def f(self_b, *a, **k):
                    tap.calls.append((name, [numify(x) for x in a], {kk: numify(v) for kk, v in k.items() if kk != "shots"}))
                    return orig(self_b, *a, **k)
                return f
            setattr(self.cls, name, mk(name, orig))
        return self

    def __exit__(self, *a):
        for name, orig in self.saved.items():
            setattr(self.cls, name, orig)


def numify(x):
    if x is None:
        return None
    try:
        a = np.asarray(x)
        if a.dtype == object:
            return repr(x)
        return a.astype(complex)
    except Exception:
        return repr(x)


def call_diff(c1, c2):
    if c1[0] != c2[0] or len(c1[1]) != len(c2[1]):
        return np.inf
    d = 0.0
    for x, y in zip(c1[1], c2[1]):
        if isinstance(x, str) or isinstance(y, str) or x is None or y is None:
            if not (isinstance(x, type(y)) and repr(x) == repr(y)):
                return np.inf
            continue
        if np.shape(x) != np.shape(y):
            return np.inf
        d = max(d, float(np.max(np.abs(x - y))) / (1 + float(np.max(np.abs(x)))) if np.size(x) else 0.0)
    for k in set(c1[2]) | set(c2[2]):
        x, y = c1[2].get(k), c2[2].get(k)
        if x is None or y is None or isinstance(x, str) or isinstance(y, str):
            if repr(x) != repr(y):
                return np.inf
            continue
        d = max(d, float(np.max(np.abs(x - y))) / (1 + float(np.max(np.abs(x)))))
    return d


DIMFUL = {"Xgate", "Zgate", "Gaussian", "MeasureHomodyne:select", "Vgate"}


def gen_case(rng, simrun, backend):
    fock = backend == "fock"
    n = int(rng.integers(1, 4))
    allow = {"fock": simrun.FOCK_OK - {"Interferometer", "GaussianTransform"}, "gaussian": simrun.GAUSSIAN_OK - {"PassiveChannel"},
             "bosonic": simrun.BOSONIC_OK}[backend]
    spec = simrun.gen_program(rng, gen, n=n, small=fock, allow=allow, length=int(rng.integers(3, 9)))
    # make sure dimensionful operations are present (values in units of hbar = 2)
    extra = []
    for _ in range(int(rng.integers(1, 4))):
        k = str(rng.choice(["Xgate", "Zgate", "Gaussian", "select", "Vgate" if fock else "Xgate",
                            "MSgate" if backend == "bosonic" else "Zgate"]))
        m = int(rng.integers(n))
        if k in ("Xgate", "Zgate"):
            extra.append({"op": k, "p": [float(rng.uniform(-0.5, 0.5))], "m": [m], "dag": bool(rng.random() < 0.3), "unit": "sqrt"})
        elif k == "Vgate":
            extra.append({"op": "Vgate", "p": [float(rng.uniform(-0.08, 0.08))], "m": [m], "dag": False, "unit": "invsqrt"})
        elif k == "MSgate":
            extra.append({"op": "MSgate", "p": [float(rng.uniform(0.1, 0.4)), float(rng.uniform(0, 3)), 1.3, 0.95], "m": [m], "dag": False})
        elif k == "Gaussian":
            kk = int(rng.integers(1, n + 1))
            modes = [int(x) for x in rng.choice(n, kk, replace=False)]
            S = gen.random_symplectic(rng, kk, True, rng.uniform(-0.2, 0.2, kk))
            nu = 1 + rng.uniform(0, 0.3, kk) * (rng.random() < 0.5)
            V = S @ np.diag(np.concatenate([nu, nu])) @ S.T
            r = rng.uniform(-0.4, 0.4, 2 * kk)
            extra.append({"op": "Gaussian", "p": [enc(V), enc(r)], "m": modes, "dag": False, "unit": "gaussian",
                          "kw": {"decomp": bool(rng.integers(2))} if backend != "fock" else {}})
        else:
            extra.append({"op": "MeasureHomodyne", "p": [gen.angle(rng)], "m": [m], "dag": False, "unit": "select",
                          "kw": {"select": float(rng.uniform(-0.4, 0.4))}})
    if backend in ("bosonic", "fock") and rng.random() < 0.35:
        # non-Gaussian preparations (dimensionless arguments): cat states in the complex representation, number states
        m = int(rng.integers(n))
        if rng.random() < 0.75:
            extra.append({"op": "Catstate", "p": [float(rng.uniform(0.4, 0.9)), float(rng.choice([0.0, float(rng.uniform(0, 6.28))])),
                                                    float(rng.choice([0, 1, 0.5, float(rng.uniform(0, 2))]))], "m": [m], "dag": False})
        elif fock:
            extra.append({"op": "Fock", "p": [int(rng.integers(1, 3))], "m": [m], "dag": False})
    cmds = spec["cmds"]
    first = []
    if backend == "bosonic":
        # the bosonic backend accepts a non-Gaussian preparation only as the first operation on its mode (and no other
        # preparation on that mode afterwards)
        first = [e for e in extra if e["op"] == "Catstate"]
        extra = [e for e in extra if e["op"] != "Catstate"]
        for e in first:
            cmds[:] = [c for c in cmds if not (c["op"] in simrun.PREPS + ["Gaussian"] and e["m"][0] in c["m"])]
            extra = [x for x in extra if not (x["op"] == "Gaussian" and e["m"][0] in x["m"])]
    for e in extra:
        pos = int(rng.integers(len(cmds) // 2, len(cmds) + 1))
        cmds.insert(pos, e)
    cmds[:0] = first
    # at most one measurement per mode
    seen = set()
    out = []
    for c in cmds:
        if c["op"] == "MeasureHomodyne":
            if c["m"][0] in seen:
                continue
            seen.add(c["m"][0])
        out.append(c)
    for c in out:  # operations produced by the shared generator (written at hbar = 2) carry their unit as well
        if c["op"] in ("Xgate", "Zgate"):
            c.setdefault("unit", "sqrt")
        elif c["op"] == "Gaussian":
            c.setdefault("unit", "gaussian")
    spec["cmds"] = out
    h1, h2 = (float(x) for x in rng.choice(HBARS, 2, replace=False))
    return {"spec": spec, "backend": backend, "h1": h1, "h2": h2,
            "conf": {"cutoff_dim": 9 if n <= 2 else 7, "pure": bool(rng.integers(2))} if fock else {}}


def scaled_spec(spec, hbar):
    """The spec is written in units of hbar = 2; rescale dimensionful arguments for `hbar`."""
    f = np.sqrt(hbar / 2.0)
    out = []
    for c in spec["cmds"]:
        c = dict(c)
        u = c.get("unit")
        if u == "sqrt":
            c["p"] = [c["p"][0] * f]
        elif u == "invsqrt":
            c["p"] = [c["p"][0] / f]
        elif u == "gaussian":
            V, r = jdec(c["p"][0]), jdec(c["p"][1])
            c["p"] = [enc(V * hbar / 2.0), enc(r * f)]
        elif u == "select":
            c["kw"] = {"select": c["kw"]["select"] * f}
        out.append(c)
    return {"n": spec["n"], "cmds": out}


def observables(env, eng, backend, n):
    st = eng.backend.state()
    o = observables_of(st, backend, n)
    o["_state"] = st
    return o


def observables_of(st, backend, n, deferred=False):
    o = {}
    o["means"] = np.asarray(st.means()) if backend == "gaussian" else None
    o["cov"] = np.asarray(st.cov()) if backend == "gaussian" else None
    if backend == "bosonic":
        o["bmeans"] = np.asarray(st.means())
        o["bcovs"] = np.asarray(st.covs())
        o["weights"] = np.asarray(st.weights())
        # dimensionless observables of the bosonic state class (Fock-basis conversion of terms with complex means included)
        o["b_fock_prob"] = [complex(st.fock_prob([k if i == 0 else 0 for i in range(n)], cutoff=6)) for k in range(4)]
        o["b_mean_photon"] = [np.asarray(st.mean_photon(m), dtype=complex) for m in range(n)]
        o["b_parity"] = complex(st.parity_expectation([0]))
        o["b_reduced_dm"] = np.asarray(st.reduced_dm([n - 1], cutoff=5))
    o["mean_photon"] = [np.asarray(st.mean_photon(m, **({"cutoff": 8} if backend == "fock" and False else {})), dtype=complex)
                        for m in range(n)] if backend != "bosonic" else None
    if backend in ("gaussian", "fock"):
        o["fock_prob"] = [float(np.real(st.fock_prob([k % 2 if i == 0 else (k // 2) % 2 for i in range(n)], **({"cutoff": 6} if backend == "gaussian" else {}))))
                          for k in range(4)]
        o["fidelity_vacuum"] = float(np.real(st.fidelity_vacuum()))
    o["quad"] = [np.asarray(st.quad_expectation(m, 0.3), dtype=complex) for m in range(n)] if backend != "bosonic" else None
    # further dimensionless observables, on proper subsets of the modes as well
    subsets = [[0]] + ([[n - 1], list(range(n))] if n > 1 else [])
    if backend in ("gaussian", "fock"):
        o["parity"] = [complex(st.parity_expectation(list(sub))) for sub in subsets]
        o["number"] = [np.asarray(st.number_expectation(list(sub[:2])), dtype=complex) for sub in subsets]
    al = [0.2 + 0.1j * k for k in range(n)]
    o["fidelity_coherent"] = complex(st.fidelity_coherent(al)) if backend != "bosonic" or n == 1 else None
    if backend == "gaussian":
        o["is_coherent"] = [bool(st.is_coherent(m)) for m in range(n)]
        o["is_squeezed"] = [bool(st.is_squeezed(m)) for m in range(n)]
        # (r, phi) as the complex squeezing parameter r e^{i phi}: the phase of an unsqueezed mode is not defined
        sq = []
        for m_, (r_, ph_) in enumerate(st.squeezing()):
            _mu, c_ = st.reduced_gaussian([m_])
            c_ = np.asarray(c_) / (st.hbar / 2)
            # (for a nearly isotropic covariance the phase is the angle of a number below 1e-6: only r is compared)
            sq.append(r_ * np.exp(1j * ph_) if np.hypot(c_[0, 1], (c_[1, 1] - c_[0, 0]) / 2) > 1e-6 else r_)
        o["squeezing"] = np.array(sq, dtype=complex)
        o["displacement"] = np.asarray(st.displacement(), dtype=complex)
        o["reduced_dm"] = np.asarray(st.reduced_dm([0], cutoff=5))
    if backend in ("gaussian", "fock"):
        # polynomial quadrature observables and the Wigner function, in coordinates scaled with the state's own convention
        h = st.hbar
        A = np.array([[0.3 if i == j else 0.1 / (1 + abs(i - j)) for j in range(2 * n)] for i in range(2 * n)])
        dvec = np.array([0.2 - 0.05 * i for i in range(2 * n)])
        try:
            if backend == "fock" and (n >= 3 or (n == 2 and deferred)):
                # (dense operator products of dimension cutoff^n: 1-2 s per call at two modes, far more at three)
                raise NotImplementedError
            o["poly_quad_A"] = np.asarray(st.poly_quad_expectation(A), dtype=complex) / np.array([h, h * h])
            # (no constant term: on a truncated Fock state it contributes k * trace, a truncation effect and not a scaling one)
            o["poly_quad_d"] = np.asarray(st.poly_quad_expectation(np.zeros((2 * n, 2 * n)), dvec, 0.0), dtype=complex)
            o["poly_quad_d"] = o["poly_quad_d"] / np.array([np.sqrt(h), h])
        except NotImplementedError:
            pass
        xv = np.array([-1.1, -0.3, 0.0, 0.6, 1.4]) * np.sqrt(h / 2)
        o["wigner"] = np.asarray(st.wigner(n - 1, xv, xv), dtype=complex) * (h / 2)
    if backend == "gaussian":
        # the queries above must not have changed the state object
        o["means_after"] = np.asarray(st.means())
        o["cov_after"] = np.asarray(st.cov())
    return o


def run_case(case, rep, env):
    sf, sfutil = env["sf"], env["sfutil"]
    backend, h1, h2 = case["backend"], case["h1"], case["h2"]
    spec = case["spec"]
    V = lambda locus, kind, what, detail=None: rep.violation(locus, kind, what, case, detail)
    nt = any(c.get("unit") for c in spec["cmds"])
    rep.case([rnd(spec, 5), backend, h1, h2, case["conf"].get("pure")], nt,
             sample={k: v for k, v in case.items()} if rep.evaluations % 131 == 4 else None)
    runs = []
    try:
        for h in (h1, h2):
            sf.hbar = h
            s = scaled_spec(spec, h)
            prog = sfutil.build_program(s["n"], s["cmds"])
            eng = sf.Engine(backend, backend_options=dict(case["conf"]))
            with BackendTap(env["classes"][backend]) as tap:
                try:
                    eng.run(prog)
                except Exception as e:
                    runs.append((e, None, None))
                    continue
            runs.append((None, list(tap.calls), observables(env, eng, backend, s["n"])))
    finally:
        sf.hbar = 2
    (e1, c1, o1), (e2, c2, o2) = runs
    # ---- a state object keeps the convention it was generated with: asking it again after the global convention has
    # been changed (to the other run's value) must give the same answers
    if e1 is None and e2 is None:
        try:
            for (o, h_own, h_now) in ((o1, h1, h2), (o2, h2, h1)):
                st = o.pop("_state")
                sf.hbar = h_now
                rep.monitor("deferred-query:" + backend)
                again = observables_of(st, backend, spec["n"], deferred=True)
                for key, val in o.items():
                    if val is None or key.endswith("_after") or key not in again:
                        continue
                    a, b = np.asarray(val, dtype=complex), np.asarray(again[key], dtype=complex)
                    d = float(np.max(np.abs(a - b))) if a.size else 0.0
                    if a.shape != b.shape or d > 1e-10 * (1 + float(np.max(np.abs(a))) if a.size else 1):
                        V(backend + ".state." + key, "depends-on-current-global-hbar", "a state generated at hbar=%s answers %s differently "
                          "once the global convention has been set to %s (max change %.3e)" % (h_own, key, h_now, d))
                        return
        finally:
            sf.hbar = 2
    if e1 is not None or e2 is not None:
        if type(e1) != type(e2):
            V(backend + ".run", "raises-at-one-hbar", "hbar=%s: %r, hbar=%s: %r" % (h1, e1, h2, e2))
        else:
            rep.observe("both-raised:" + type(e1).__name__)
        return
    # a decomposed Gaussian preparation goes through Williamson / Bloch-Messiah / mesh factorisations, which are not
    # unique: rounding-level differences of V / (hbar/2) may legitimately give different gate angles with the same net
    # action, so those programs are judged on observables only
    decomposed_gaussian = any(c["op"] == "Gaussian" and (backend == "fock" or c.get("kw", {}).get("decomp", True)) for c in spec["cmds"])
    if decomposed_gaussian:
        rep.observe("stream-comparison-skipped:decomposed-Gaussian")
        c1 = c2 = []
    else:
        rep.monitor("stream:" + backend)
    if len(c1) != len(c2):
        V(backend + ".api", "stream-length", "%d backend calls at hbar=%s, %d at hbar=%s" % (len(c1), h1, len(c2), h2))
        return
    for i, (a, b) in enumerate(zip(c1, c2)):
        d = call_diff(a, b)
        rep.dev("stream.call-diff", d if np.isfinite(d) else 1e9, 1e-9)
        if d > 1e-9:
            V("%s.%s" % (backend, a[0]), "hbar-dependent-backend-call", "backend call #%d %s differs between hbar=%s and hbar=%s: "
              "%s vs %s" % (i, a[0], h1, h2, rnd([np.real_if_close(x).tolist() if not isinstance(x, (str, type(None))) else x for x in a[1]], 8),
                            rnd([np.real_if_close(x).tolist() if not isinstance(x, (str, type(None))) else x for x in b[1]], 8)))
            return
    rep.monitor("observables:" + backend)
    ratio = h2 / h1
    tol = 2e-6  # (post-selected homodyne uses a finite-squeezing model, eps = 2e-4)
    # strongly squeezed states amplify the rounding differences between the two runs (conditioning on a post-selected
    # outcome divides by small variances): the budget grows with the largest covariance entry of the state (hbar = 2 units)
    amp = 1.0
    if o2.get("cov") is not None:
        amp = max(1.0, float(np.max(np.abs(o2["cov"]))) / (h2 / 2.0))

    def cmp(name, x, y, scale):
        if x is None or y is None:
            return
        x, y = np.asarray(x, dtype=complex), np.asarray(y, dtype=complex)
        d = float(np.max(np.abs(x * scale - y))) if x.size else 0.0
        if d > tol * amp * (1 + float(np.max(np.abs(y))) if y.size else 1):
            V(backend + ".state." + name, "hbar-scaling", "%s at hbar=%s and hbar=%s does not scale by %.4f: max deviation %.3e" % (
                name, h1, h2, scale, d))
            raise StopIteration
    try:
        cmp("means", o1["means"], o2["means"], np.sqrt(ratio))
        cmp("cov", o1["cov"], o2["cov"], ratio)
        if backend == "bosonic":
            cmp("means", o1["bmeans"], o2["bmeans"], np.sqrt(ratio))
            cmp("covs", o1["bcovs"], o2["bcovs"], ratio)
            cmp("weights", o1["weights"], o2["weights"], 1.0)
            for key in ("b_fock_prob", "b_mean_photon", "b_parity", "b_reduced_dm"):
                cmp(key[2:], np.asarray(o1[key], dtype=complex), np.asarray(o2[key], dtype=complex), 1.0)
        if o1.get("mean_photon") is not None:
            for m, (x, y) in enumerate(zip(o1["mean_photon"], o2["mean_photon"])):
                cmp("mean_photon", x, y, 1.0)
        if "fock_prob" in o1:
            cmp("fock_prob", o1["fock_prob"], o2["fock_prob"], 1.0)
            cmp("fidelity_vacuum", o1["fidelity_vacuum"], o2["fidelity_vacuum"], 1.0)
        for key in ("parity", "number", "fidelity_coherent", "squeezing", "displacement", "reduced_dm", "poly_quad_A", "poly_quad_d", "wigner"):
            if o1.get(key) is not None:
                cmp(key, np.asarray(o1[key], dtype=complex), np.asarray(o2[key], dtype=complex), 1.0)
        for key in ("is_coherent", "is_squeezed"):
            if key in o1 and o1[key] != o2[key]:
                V(backend + ".state." + key, "hbar-scaling", "%s = %s at hbar=%s but %s at hbar=%s" % (key, o1[key], h1, o2[key], h2))
                return
        for o, h in ((o1, h1), (o2, h2)):
            if "means_after" in o:
                if np.max(np.abs(o["means_after"] - o["means"])) > 1e-12 or np.max(np.abs(o["cov_after"] - o["cov"])) > 1e-12:
                    V(backend + ".state", "query-mutates-state", "at hbar=%s the state's means / cov changed by %.3e after calling its own "
                      "query methods (is_coherent / is_squeezed / squeezing / displacement / reduced_dm)" % (
                          h, max(np.max(np.abs(o["means_after"] - o["means"])), np.max(np.abs(o["cov_after"] - o["cov"])))))
                    return
        if o1.get("quad") is not None:
            for x, y in zip(o1["quad"], o2["quad"]):
                cmp("quad_expectation.mean", x[0], y[0], np.sqrt(ratio))
                cmp("quad_expectation.var", x[1], y[1], ratio)
    except StopIteration:
        return


def plan(tier, seed, scale=1.0):
    n = int((36 if tier == "quick" else 900) * scale)
    return [{"n": n, "timeout": 3000} for _ in range(16)]


def run_shard(shard, rep):
    env = load()
    rng = np.random.default_rng([shard["seed"], shard["id"], 15])
    backends = ["gaussian", "bosonic", "gaussian", "fock", "bosonic"]
    for i in range(shard["n"]):
        case = gen_case(rng, env["simrun"], backends[i % len(backends)])
        try:
            run_case(case, rep, env)
        except Exception as e:
            rep.error("run_case:" + case["backend"], e)


def replay(case, rep):
    run_case(case, rep, load())
