"""C16 — state observables are consistent with each other and across representations.

Every public observable of the state objects returned by the real backends is evaluated on states whose exact
content is known to the harness (a reference Gaussian (mu, V), loaded into the gaussian, bosonic and fock
representations through the real engines) and compared with a reference value that is *never* taken from a
Strawberry Fields state method: photon statistics from The Walrus probabilities of the reference (mu, V) on a large
cutoff (mean / variance of n, parity = sum (-1)^n p(n), <n_i n_j>, vacuum fidelity, reduced density matrices),
closed Gaussian forms for quadrature moments, Wigner function, quadrature marginals and coherent-state fidelities.
Subset / order clause: each method is asked about proper subsets and about unsorted mode lists; it must answer for
exactly those modes in that order or raise ValueError.
"""
import itertools
import math

import numpy as np

from ..common import setup_paths, rnd, enc
from .. import refgauss as rg, gen

PROPERTY = "C16"
RULE = ("seeded reference Gaussian states (pure / mixed, displaced, correlated, 1-3 modes, small energy so that the Fock cutoff "
        "holds them) loaded into the gaussian, bosonic and fock (pure and mixed) representations through the real engines; every "
        "state method x random mode subsets and orders x argument values (angles, cutoffs, coherent amplitudes, grids). "
        "non-trivial = the state is correlated (max cross-covariance > 1e-3) and at least one proper subset is queried; "
        "distinct = rounded (mu, V) + representation.")
ASSUMPTIONS = [
    "reference photon statistics come from thewalrus.quantum.probabilities / density_matrix applied to the reference "
    "(mu, V) on a cutoff whose tail is < 1e-9; SF also uses The Walrus (a common Walrus bug would be invisible)",
    "Fock representation tolerances: 20*sqrt(tail) + 1e-6; Gaussian / bosonic tolerance 1e-6 (Walrus series at finite cutoff)",
]
MAX_SKIP_FRACTION = 0.1
REQUIRED_MONITORS = ["mean_photon", "fock_prob", "all_fock_probs", "parity_expectation", "number_expectation", "quad_expectation",
                     "fidelity_vacuum", "fidelity_coherent", "reduced_dm", "wigner", "poly_quad_expectation",
                     "subset-order:raises-or-honours", "state(modes=ordered-subset)", "displacement", "squeezing:reproduces-covariance",
                     "purity", "marginal", "x/p_quad_values", "trace", "fidelity(vector)",
                     "nongauss:mean_photon", "nongauss:quad_expectation", "nongauss:reduced_dm", "nongauss:wigner", "nongauss:fock_prob",
                     "nongauss:parity_expectation", "nongauss:fidelity"]


def load():
    setup_paths()
    import strawberryfields as sf
    from strawberryfields import ops

    return {"sf": sf, "ops": ops}


def gen_state(rng):
    n = int(rng.integers(1, 4))
    pure = bool(rng.random() < 0.5)
    g = rg.GState(n)
    for m in range(n):
        S, d = rg.gate_sd("Sgate", [rng.uniform(-0.25, 0.25) * (rng.random() < 0.85), rng.uniform(0, 6.28)])
        g.apply_sd(S, d, [m])
    if n > 1 and rng.random() < 0.8:
        g.apply_sd(rg.interferometer_S(gen.haar(rng, n)), np.zeros(2 * n), list(range(n)))
        if rng.random() < 0.5:
            a, b = rng.choice(n, 2, replace=False)
            S, d = rg.gate_sd("S2gate", [rng.uniform(-0.15, 0.15), rng.uniform(0, 6.28)])
            g.apply_sd(S, d, [int(a), int(b)])
    if not pure:
        for m in range(n):
            X, Y, d = rg.channel_xy("ThermalLossChannel", [rng.uniform(0.6, 1.0), rng.uniform(0, 0.3)])
            g.apply_xy(X, Y, d, [m])
    if rng.random() < 0.8:
        g.mu = g.mu + rng.normal(0, 0.35, 2 * n) * (rng.random(2 * n) < 0.8)
    return {"n": n, "mu": enc(g.mu), "V": enc(g.V), "pure": pure}


def make_states(env, g, n, pure):
    """The same reference state in every representation, through the real engines."""
    from thewalrus.quantum import density_matrix, state_vector

    sf, ops = env["sf"], env["ops"]
    out = {}
    for backend in ("gaussian", "bosonic"):
        prog = sf.Program(n)
        with prog.context as q:
            ops.Gaussian(g.V * sf.hbar / 2, g.mu * np.sqrt(sf.hbar / 2), decomp=False) | tuple(q)
        out[backend] = sf.Engine(backend).run(prog).state
    D = {1: 16, 2: 11, 3: 8}[n]
    dm = density_matrix(g.mu, g.V, cutoff=D, hbar=2)
    prog = sf.Program(n)
    with prog.context as q:
        ops.DensityMatrix(dm) | tuple(q)
    out["fock-mixed"] = sf.Engine("fock", backend_options={"cutoff_dim": D, "pure": False}).run(prog).state
    if pure:
        ket = state_vector(g.mu, g.V, cutoff=D, hbar=2, check_purity=False)
        prog = sf.Program(n)
        with prog.context as q:
            ops.Ket(ket) | tuple(q)
        out["fock-pure"] = sf.Engine("fock", backend_options={"cutoff_dim": D}).run(prog).state
    return out, D


def ordered_state_requests(case, rep, env, g, hbar):
    """Result.state requested for an ordered subset of modes (run option `modes`): position k of the returned state
    must answer for the k-th requested mode, in every representation."""
    from thewalrus.quantum import density_matrix

    sf, ops = env["sf"], env["ops"]
    n = g.n
    if n < 2:
        return
    rng = np.random.default_rng(case.get("qseed", 0) + 7)
    D = {2: 9, 3: 7}[n]
    dm = density_matrix(g.mu, g.V, cutoff=D, hbar=2)
    f = np.sqrt(hbar / 2.0)
    orders = [list(p) for k in range(1, n + 1) for p in itertools.permutations(range(n), k)]
    rng.shuffle(orders)
    for order in orders[:4]:
        for backend, conf in (("gaussian", {}), ("bosonic", {}), ("fock", {"cutoff_dim": D, "pure": False})):
            prog = sf.Program(n)
            with prog.context as q:
                if backend == "fock":
                    ops.DensityMatrix(dm) | tuple(q)
                else:
                    ops.Gaussian(g.V * hbar / 2, g.mu * f, decomp=False) | tuple(q)
            rep.monitor("state(modes=ordered-subset)")
            lab = backend
            try:
                st = sf.Engine(backend, backend_options=conf).run(prog, modes=list(order)).state
            except Exception as e:
                rep.violation("%s.state" % backend, "ordered-modes-exception:" + type(e).__name__,
                              "run(modes=%s) raised %s: %s" % (order, type(e).__name__, str(e)[:100]), case)
                continue
            if st.num_modes != len(order):
                rep.violation("%s.state" % backend, "ordered-modes-count", "run(modes=%s) returned a state with %d modes" % (order, st.num_modes), case)
                continue
            # bosonic documents ascending order
            exp_order = sorted(order) if backend == "bosonic" else list(order)
            tol = 2e-6 if backend != "fock" else 5e-3
            for k, m in enumerate(exp_order):
                mr, vr = g.homodyne_dist(m, 0.4)
                try:
                    got = st.quad_expectation(k, 0.4)
                except Exception as e:
                    rep.violation("%s.state" % backend, "ordered-modes-observable-exception:" + type(e).__name__,
                                  "quad_expectation on the state returned by run(modes=%s) raised %s: %s" % (order, type(e).__name__, str(e)[:100]), case)
                    break
                if abs(got[0] - mr * f) > tol * (1 + abs(mr)) or abs(got[1] - vr * f * f) > 5 * tol * (1 + vr):
                    rep.violation("%s.state" % backend, "ordered-modes-wrong-mode", "run(modes=%s): position %d should answer for mode %d "
                                  "(x_0.4: mean %.5f var %.5f) but reports mean %.5f var %.5f" % (
                                      order, k, m, mr * f, vr * f * f, np.real(got[0]), np.real(got[1])), case)
                    break


def wigner_ref(mu1, V1, xs, ps, hbar):
    """Gaussian Wigner function of one mode on the grid, in units of hbar (W[i, j] = W(xs[j]?...) both layouts returned)."""
    f = np.sqrt(hbar / 2.0)
    m = mu1 * f
    C = V1 * hbar / 2.0
    Ci = np.linalg.inv(C)
    X, P = np.meshgrid(xs, ps, indexing="ij")
    dx, dp = X - m[0], P - m[1]
    arg = Ci[0, 0] * dx * dx + 2 * Ci[0, 1] * dx * dp + Ci[1, 1] * dp * dp
    return np.exp(-0.5 * arg) / (2 * np.pi * np.sqrt(np.linalg.det(C)))


def run_case(case, rep, env):
    from thewalrus.quantum import probabilities, density_matrix
    from ..common import dec as jdec

    sf = env["sf"]
    n, pure = case["n"], case["pure"]
    g = rg.GState(n)
    g.mu, g.V = jdec(case["mu"]), jdec(case["V"])
    hbar = case.get("hbar", 2.0)
    sf.hbar = hbar
    try:
        states, D = make_states(env, g, n, pure)
    finally:
        pass
    try:
        _check(case, rep, env, g, states, D, hbar)
        ordered_state_requests(case, rep, env, g, hbar)
    finally:
        sf.hbar = 2


def _check(case, rep, env, g, states, D, hbar):
    from thewalrus.quantum import probabilities, density_matrix

    n = g.n
    rng = np.random.default_rng(case.get("qseed", 0))
    from thewalrus.quantum import state_vector

    C = {1: 40, 2: 22, 3: 12}[n]
    # reference photon statistics through the (fast) multidimensional-Hermite routines of The Walrus
    if case["pure"]:
        P = np.abs(state_vector(g.mu, g.V, cutoff=C, hbar=2, check_purity=False)) ** 2
    else:
        T = density_matrix(g.mu, g.V, cutoff=C, hbar=2)
        letters = "abcdefghij"[:n]
        P = np.real(np.einsum("".join(c + c for c in letters) + "->" + letters, T))
    P = np.asarray(P).reshape((C,) * n)
    tail_ref = max(0.0, 1 - float(P.sum()))
    tailD = 0.0
    for m in range(n):
        marg_m = P.sum(axis=tuple(k for k in range(n) if k != m))
        tailD += float(marg_m[D:].sum()) + tail_ref
    cross = 0.0
    if n > 1:
        cross = max(np.max(np.abs(g.V[np.ix_(g.idx([a]), g.idx([b]))])) for a in range(n) for b in range(n) if a != b)
    rep.case([rnd(case["mu"], 5), rnd(case["V"], 5), hbar], cross > 1e-3 and n > 1,
             sample={"n": n, "pure": case["pure"], "hbar": hbar, "mu": np.round(g.mu, 4).tolist()} if rep.evaluations % 53 == 3 else None)
    if tail_ref > 1e-7:
        rep.skip("reference-cutoff-too-small")
        return
    nn = np.arange(C)
    f = np.sqrt(hbar / 2.0)

    def tol_for(lab):
        return (20 * np.sqrt(tailD) + 1e-6) if lab.startswith("fock") else 2e-6

    def V(lab, method, kind, what):
        rep.violation("%s.%s" % ({"gaussian": "BaseGaussianState", "bosonic": "BaseBosonicState"}.get(lab, "BaseFockState"), method),
                      kind, "[%s, %d modes, hbar=%.1f] %s" % (lab, n, hbar, what), case)

    def close(a, b, tol):
        a, b = np.asarray(a, dtype=complex), np.asarray(b, dtype=complex)
        return a.shape == b.shape and (a.size == 0 or float(np.max(np.abs(a - b))) <= tol * (1 + float(np.max(np.abs(b)))))

    def marg(modes):
        return P.sum(axis=tuple(k for k in range(n) if k not in modes)) if len(modes) < n else P

    subsets = [list(s) for k in range(1, n + 1) for s in itertools.combinations(range(n), k)]
    for lab, st in states.items():
        tol = tol_for(lab)
        rep.seen("representations", "%s/%d" % (lab, n))
        # ---- mean_photon -------------------------------------------------------------------------------------
        for m in range(n):
            pm = marg([m])
            mean = float((pm * nn).sum())
            var = float((pm * nn ** 2).sum() - mean ** 2)
            rep.monitor("mean_photon")
            try:
                got = st.mean_photon(m)
            except Exception as e:
                V(lab, "mean_photon", "exception:" + type(e).__name__, "mean_photon(%d) raised %s: %s" % (m, type(e).__name__, str(e)[:80]))
                continue
            if not close(got[0], mean, tol) or not close(got[1], var, 5 * tol):
                V(lab, "mean_photon", "value", "mean_photon(%d) = (%.8f, %.8f), reference (%.8f, %.8f)" % (m, np.real(got[0]), np.real(got[1]), mean, var))
        # ---- quad_expectation --------------------------------------------------------------------------------
        for m in range(n):
            phi = float(rng.choice([0.0, np.pi / 2, rng.uniform(0, 6.28)]))
            mr, vr = g.homodyne_dist(m, phi)
            rep.monitor("quad_expectation")
            try:
                got = st.quad_expectation(m, phi)
                if not close(got[0], mr * f, tol) or not close(got[1], vr * f * f, 5 * tol):
                    V(lab, "quad_expectation", "value", "quad_expectation(%d, %.3f) = (%.8f, %.8f), reference (%.8f, %.8f)" % (
                        m, phi, np.real(got[0]), np.real(got[1]), mr * f, vr * f * f))
            except Exception as e:
                V(lab, "quad_expectation", "exception:" + type(e).__name__, "raised %s: %s" % (type(e).__name__, str(e)[:80]))
        # ---- fock_prob / all_fock_probs ----------------------------------------------------------------------
        for _ in range(3):
            pat = [int(x) for x in rng.integers(0, 3, n)]
            kw = {} if lab.startswith("fock") else {"cutoff": sum(pat) + 2}  # documented: cutoff > sum of photon numbers
            rep.monitor("fock_prob")
            try:
                got = st.fock_prob(pat, **kw)
                if not close(got, P[tuple(pat)], tol):
                    V(lab, "fock_prob", "value" + (":multi-mode" if n > 1 else ""), "fock_prob(%s) = %.8f, reference %.8f" % (pat, np.real(got), P[tuple(pat)]))
            except Exception as e:
                V(lab, "fock_prob", "exception:" + type(e).__name__, "fock_prob(%s) raised %s: %s" % (pat, type(e).__name__, str(e)[:80]))
        rep.monitor("all_fock_probs")
        try:
            c = D if lab.startswith("fock") else 5
            got = np.asarray(st.all_fock_probs(**({} if lab.startswith("fock") else {"cutoff": c})))
            ref = P[tuple(slice(0, c) for _ in range(n))]
            got = got.reshape(ref.shape) if got.size == ref.size else got
            if not close(got, ref, tol):
                V(lab, "all_fock_probs", "value", "all_fock_probs deviates from the reference by %.3e" % (
                    np.max(np.abs(got - ref)) if got.shape == ref.shape else np.inf))
        except NotImplementedError:
            rep.observe("not-implemented:all_fock_probs:" + lab)
        except Exception as e:
            V(lab, "all_fock_probs", "exception:" + type(e).__name__, "raised %s: %s" % (type(e).__name__, str(e)[:80]))
        # ---- fidelity_vacuum / fidelity_coherent ---------------------------------------------------------------
        rep.monitor("fidelity_vacuum")
        try:
            got = st.fidelity_vacuum()
            if not close(got, P[(0,) * n], tol):
                V(lab, "fidelity_vacuum", "value", "fidelity_vacuum = %.8f, reference p(0..0) = %.8f" % (np.real(got), P[(0,) * n]))
        except Exception as e:
            V(lab, "fidelity_vacuum", "exception:" + type(e).__name__, "raised %s" % type(e).__name__)
        al = rng.normal(0, 0.3, n) + 1j * rng.normal(0, 0.3, n)
        delta = g.mu - 2 * np.concatenate([al.real, al.imag])
        Fc = float(2 ** n / np.sqrt(np.linalg.det(g.V + np.eye(2 * n))) * np.exp(-0.5 * delta @ np.linalg.inv(g.V + np.eye(2 * n)) @ delta))
        rep.monitor("fidelity_coherent")
        try:
            got = st.fidelity_coherent(list(al))
            if not close(got, Fc, tol):
                V(lab, "fidelity_coherent", "value", "fidelity_coherent(%s) = %.8f, reference %.8f" % (np.round(al, 3).tolist(), np.real(got), Fc))
        except Exception as e:
            V(lab, "fidelity_coherent", "exception:" + type(e).__name__, "raised %s: %s" % (type(e).__name__, str(e)[:80]))
        # ---- parity / number expectation on subsets -------------------------------------------------------------
        for modes in subsets:
            pm = marg(modes)
            idx = np.indices(pm.shape)
            par = float((pm * (-1.0) ** idx.sum(axis=0)).sum())
            rep.monitor("parity_expectation")
            try:
                got = st.parity_expectation(modes)
                if not close(got, par, tol):
                    V(lab, "parity_expectation", "value" + (":proper-subset" if len(modes) < n else ""),
                      "parity_expectation(%s) = %.8f, reference sum (-1)^n p(n) over those modes = %.8f" % (modes, np.real(got), par))
            except Exception as e:
                V(lab, "parity_expectation", "exception:" + type(e).__name__, "parity_expectation(%s) raised %s: %s" % (modes, type(e).__name__, str(e)[:80]))
            if len(modes) <= 2:
                prod = np.ones(pm.shape)
                for ax in range(len(modes)):
                    prod = prod * idx[ax]
                nexp = float((pm * prod).sum())
                nvar = float((pm * prod ** 2).sum() - nexp ** 2)
                # the reference is a sum over a finite Fock box and n^2 (n^4 for the variance) weights its missing tail
                # heavily: the change of the sums when the box shrinks by two per mode measures how far they are from
                # converged (geometric tails), and is added to the budget
                cut = tuple(slice(0, max(1, d - 2)) for d in pm.shape)
                nexp_c = float((pm[cut] * prod[cut]).sum())
                nvar_c = float((pm[cut] * prod[cut] ** 2).sum() - nexp_c ** 2)
                conv_e, conv_v = 3 * abs(nexp - nexp_c), 3 * abs(nvar - nvar_c)
                rep.monitor("number_expectation")
                try:
                    got = st.number_expectation(modes)
                    if not close(got[0], nexp, tol + conv_e) or not close(got[1], nvar, 10 * tol + conv_v):
                        V(lab, "number_expectation", "value", "number_expectation(%s) = (%.8f, %.8f), reference (%.8f, %.8f)" % (
                            modes, np.real(got[0]), np.real(got[1]), nexp, nvar))
                except NotImplementedError:
                    rep.observe("not-implemented:number_expectation:" + lab)
                except Exception as e:
                    V(lab, "number_expectation", "exception:" + type(e).__name__, "number_expectation(%s) raised %s: %s" % (modes, type(e).__name__, str(e)[:80]))
        # ---- reduced_dm ---------------------------------------------------------------------------------------------
        for modes in subsets:
            if len(modes) > 2:
                continue
            c = D if lab.startswith("fock") else 6
            mu_r, V_r = g.reduced(modes)
            ref = density_matrix(mu_r, V_r, cutoff=c, hbar=2)
            rep.monitor("reduced_dm")
            try:
                got = np.asarray(st.reduced_dm(modes, **({} if lab.startswith("fock") else {"cutoff": c})))
                if not lab.startswith("fock"):
                    # Gaussian representations document normalize=True at the requested cutoff: compare normalised matrices
                    k = len(modes)
                    perm0 = [2 * i for i in range(k)] + [2 * i + 1 for i in range(k)]
                    tr_ref = np.trace(np.transpose(ref, perm0).reshape(c ** k, c ** k))
                    tr_got = np.trace(got) if got.ndim == 2 else np.trace(np.transpose(got, perm0).reshape(c ** k, c ** k))
                    ref = ref / tr_ref
                    got = got / tr_got
                if got.shape != ref.shape:
                    # a pure-state shortcut may return a 2-D outer product for several modes
                    k = len(modes)
                    perm = [2 * i for i in range(k)] + [2 * i + 1 for i in range(k)]
                    refm = np.transpose(ref, perm).reshape(c ** k, c ** k)
                    ok = got.shape == refm.shape and close(got, refm, tol)
                else:
                    ok = close(got, ref, tol)
                if not ok:
                    kind = "value"
                    if len(modes) < n:
                        kind += ":proper-subset"
                    if len(modes) > 1:
                        kind += ":multi-mode"
                    V(lab, "reduced_dm", kind, "reduced_dm(%s) differs from the density matrix of the reference marginal (max dev %.3e)" % (
                        modes, np.max(np.abs(got - ref)) if got.shape == ref.shape else np.inf))
            except Exception as e:
                V(lab, "reduced_dm", "exception:" + type(e).__name__, "reduced_dm(%s) raised %s: %s" % (modes, type(e).__name__, str(e)[:80]))
        # ---- wigner + marginals --------------------------------------------------------------------------------------
        m = int(rng.integers(n))
        xs = np.linspace(-3, 3, 13) * f
        ps = np.linspace(-2.5, 2.5, 11) * f
        mu1, V1 = g.reduced([m])
        Wref = wigner_ref(mu1, V1, xs, ps, hbar)
        rep.monitor("wigner")
        try:
            W = np.asarray(st.wigner(m, xs, ps))
            okW = (W.shape == Wref.shape and close(W, Wref, max(tol, 1e-5))) or (W.shape == Wref.T.shape and close(W, Wref.T, max(tol, 1e-5)))
            if not okW:
                V(lab, "wigner", "value", "wigner(mode %d) differs from the Gaussian Wigner function of the reference marginal "
                  "(max dev %.3e)" % (m, min(np.max(np.abs(W - Wref)) if W.shape == Wref.shape else np.inf,
                                          np.max(np.abs(W - Wref.T)) if W.shape == Wref.T.shape else np.inf)))
        except Exception as e:
            V(lab, "wigner", "exception:" + type(e).__name__, "wigner raised %s: %s" % (type(e).__name__, str(e)[:80]))
        # ---- poly_quad_expectation (mean of a random quadratic polynomial) ------------------------------------------------
        A = rng.normal(size=(2 * n, 2 * n))
        A = (A + A.T) / 2
        d = rng.normal(size=2 * n)
        k0 = float(rng.normal())
        mu_h, V_h = g.mu * f, g.V * f * f
        pref = float(np.trace(A @ V_h) + mu_h @ A @ mu_h + d @ mu_h + k0)
        rep.monitor("poly_quad_expectation", 0 if (lab.startswith("fock") and n == 3) else 1)
        try:
            if lab.startswith("fock") and n == 3:
                raise NotImplementedError  # (dense 3-mode operator products: too slow for the budget, covered on 1-2 modes)
            got = st.poly_quad_expectation(A, d, k0)
            if not close(got[0], pref, 10 * tol):
                V(lab, "poly_quad_expectation", "value", "poly_quad_expectation mean %.8f, reference Tr(AV) + mu A mu + d mu + k = %.8f" % (np.real(got[0]), pref))
        except NotImplementedError:
            rep.observe("not-implemented:poly_quad_expectation:" + lab)
        except Exception as e:
            V(lab, "poly_quad_expectation", "exception:" + type(e).__name__, "raised %s: %s" % (type(e).__name__, str(e)[:80]))
        # ---- displacement / squeezing / purity / marginal distributions / trace / overlap with a given vector ---------------
        m = int(rng.integers(n))
        mu1, V1 = g.reduced([m])
        order = [int(x) for x in rng.permutation(n)[: int(rng.integers(1, n + 1))]]
        if lab in ("gaussian", "bosonic"):
            rep.monitor("displacement")
            want = np.array([(g.mu[k] + 1j * g.mu[n + k]) / 2 for k in order])
            try:
                got = np.asarray(st.displacement(list(order)), dtype=complex)
                if not close(got, want, tol):
                    asc = np.array([(g.mu[k] + 1j * g.mu[n + k]) / 2 for k in sorted(order)])
                    V(lab, "displacement", "value:ordered-modes" if close(got, asc, tol) else "value",
                      "displacement(%s) = %s, the state's displacements of these modes in this order are %s" % (
                          order, np.round(got, 5).tolist(), np.round(want, 5).tolist()))
            except ValueError as e:
                rep.observe("displacement:ValueError:" + lab)
        if lab == "gaussian" and abs(np.linalg.det(V1) - 1) < 1e-9:
            # a pure one-mode Gaussian state is a displaced squeezed state: the reported (r, phi) must reproduce its covariance
            rep.monitor("squeezing:reproduces-covariance")
            r_, ph_ = st.squeezing([m])[0]
            S_, _d = rg.gate_sd("Sgate", [float(r_), float(ph_)])
            dev_ = float(np.max(np.abs(S_ @ S_.T - V1)))
            rep.seen("squeezing-quadrant", "cos(phi)%s0" % ("<" if V1[0, 0] > V1[1, 1] + 1e-9 else ">="))
            if dev_ > 1e-6:
                V(lab, "squeezing", "not-the-covariance", "squeezing([%d]) = (%.5f, %.5f); a squeezed state with these parameters has covariance "
                  "%s, the state's is %s" % (m, r_, ph_, np.round(S_ @ S_.T, 4).tolist(), np.round(V1, 4).tolist()))
            if bool(st.is_squeezed(m)) != bool(np.any(np.abs(V1 - np.eye(2)) > 1e-6)):
                V(lab, "is_squeezed", "value", "is_squeezed(%d) = %s for covariance %s" % (m, st.is_squeezed(m), np.round(V1, 6).tolist()))
        if lab == "bosonic":
            rep.monitor("purity")
            pur = complex(st.purity())
            if not close(pur, 1.0 / np.sqrt(np.linalg.det(g.V)), 1e-6):
                V(lab, "purity", "value", "purity() = %s, 1/sqrt(det V) = %.8f" % (np.round(pur, 8), 1.0 / np.sqrt(np.linalg.det(g.V))))
            rep.monitor("marginal")
            phi_ = float(rng.uniform(0, 6.28))
            cph, sph = np.cos(phi_), np.sin(phi_)
            mean_ = cph * mu1[0] + sph * mu1[1]
            var_ = cph ** 2 * V1[0, 0] + sph ** 2 * V1[1, 1] + 2 * cph * sph * V1[0, 1]
            xs_ = f * (mean_ + np.sqrt(var_) * np.linspace(-3, 3, 25))
            ref_ = np.exp(-0.5 * (xs_ / f - mean_) ** 2 / var_) / np.sqrt(2 * np.pi * var_) / f
            got_ = np.asarray(st.marginal(m, xs_, phi_), dtype=complex)
            if not close(got_, ref_, 1e-6):
                V(lab, "marginal", "value", "marginal(mode %d, phi=%.3f) differs from the Gaussian density of x_phi by %.3e" % (
                    m, phi_, float(np.max(np.abs(got_ - ref_)))))
        if not (lab.startswith("fock") and n == 3):
            rep.monitor("x/p_quad_values")
            grid = f * np.linspace(-7, 7, 113)
            pts = grid[::8]
            for which, k_ in (("x", 0), ("p", 1)):
                ref_ = np.exp(-0.5 * (grid / f - mu1[k_]) ** 2 / V1[k_, k_]) / np.sqrt(2 * np.pi * V1[k_, k_]) / f
                got_ = np.real(np.asarray(getattr(st, which + "_quad_values")(m, grid, grid)))
                if got_.shape != ref_.shape or float(np.max(np.abs(got_ - ref_))) > (5e-4 + 5 * tol) * float(np.max(ref_)):
                    V(lab, which + "_quad_values", "value", "%s_quad_values(mode %d) differs from the %s marginal of the state by %.3e (peak %.3e)" % (
                        which, m, which, float(np.max(np.abs(got_ - ref_))) if got_.shape == ref_.shape else np.inf, float(np.max(ref_))))
                    break
        if lab.startswith("fock"):
            rep.monitor("trace")
            tr_ref = float(P[tuple(slice(0, D) for _ in range(n))].sum())
            if abs(float(st.trace()) - tr_ref) > tol:
                V(lab, "trace", "value", "trace() = %.8f, the reference state has %.8f inside the cutoff" % (st.trace(), tr_ref))
            rep.monitor("fidelity(vector)")
            al_ = 0.2 + 0.1j
            vec_ = np.exp(-abs(al_) ** 2 / 2) * np.array([al_ ** k / np.sqrt(float(math.factorial(k))) for k in range(D)])
            rho_m = density_matrix(mu1, V1, cutoff=D, hbar=2)
            want_ = float(np.real(np.conj(vec_) @ rho_m @ vec_))
            got_ = float(st.fidelity(vec_, m))
            if abs(got_ - want_) > tol:
                V(lab, "fidelity", "value", "fidelity(coherent vector, mode %d) = %.8f, <v|rho_m|v> of the reference is %.8f" % (m, got_, want_))
        # ---- unsorted mode lists: raise or honour the order ---------------------------------------------------------------
        if n >= 2:
            a, b = (int(x) for x in rng.choice(n, 2, replace=False))
            lo, hi = min(a, b), max(a, b)
            rep.monitor("subset-order:raises-or-honours")
            c = D if lab.startswith("fock") else 5
            try:
                got = np.asarray(st.reduced_dm([hi, lo], **({} if lab.startswith("fock") else {"cutoff": c})))
                mu_r, V_r = g.reduced([hi, lo])
                ref = density_matrix(mu_r, V_r, cutoff=c, hbar=2)
                if got.shape == ref.shape and not close(got, ref, tol):
                    V(lab, "reduced_dm", "unsorted-modes-silently-reordered", "reduced_dm([%d, %d]) neither raised nor answered in "
                      "the requested order" % (hi, lo))
            except ValueError:
                rep.observe("unsorted-modes:ValueError:" + lab)
            except Exception as e:
                V(lab, "reduced_dm", "unsorted-modes-exception:" + type(e).__name__, "reduced_dm([%d, %d]) raised %s" % (hi, lo, type(e).__name__))
    # ---- internal consistency of one object: fock_prob(n) == all_fock_probs()[n] ---------------------------------------------
    st = states["fock-mixed"]
    ap = np.asarray(st.all_fock_probs())
    pat = tuple(int(x) for x in rng.integers(0, 3, n))
    if abs(st.fock_prob(list(pat)) - ap.reshape((D,) * n)[pat]) > 1e-12:
        V("fock-mixed", "fock_prob", "inconsistent-with-all_fock_probs", "fock_prob(%s) != all_fock_probs()[%s]" % (pat, pat))


def run_nongauss(case, rep, env):
    """State methods on non-Gaussian states (cat / number states + Gaussian gates + loss) of the bosonic and Fock state
    classes against RefFock (vf.reffock): the reference shares nothing with strawberryfields or The Walrus."""
    from .. import nongauss as ng

    sf, ops = env["sf"], env["ops"]
    n = case["n"]
    hbar = case.get("hbar", 2.0)
    Dref = 28 if n == 1 else 22
    f = ng.reference(case, Dref)
    if f.tail(Dref - 4) > 1e-9:
        rep.skip("nongauss reference truncation")
        return
    rep.case(["nongauss", rnd(case["cmds"], 6), hbar], len(case["cmds"]) >= 2)
    rng = np.random.default_rng(case.get("qseed", 0))
    Dq = 8 if n == 2 else 10
    refdm = ng.ref_dm(f, Dq)
    P = f.probs()
    sf.hbar = hbar
    try:
        for conf in ({"backend": "bosonic"}, {"backend": "fock", "cutoff_dim": 14 if n == 2 else 18}):
            lab = conf["backend"] + "(non-gaussian)"
            eng = sf.Engine(conf["backend"], backend_options={k: v for k, v in conf.items() if k != "backend"})
            st = eng.run(ng.build(sf, ops, case)).state
            if conf["backend"] == "bosonic":
                tol = 3e-2 if case.get("approx") else 2e-6
            else:
                tol = 20 * np.sqrt(f.tail(conf["cutoff_dim"])) + 1e-6

            def V(method, kind, what):
                rep.violation("%s.%s" % ("BaseBosonicState" if conf["backend"] == "bosonic" else "BaseFockState", method),
                              "value:non-gaussian" + (":" + kind if kind else ""), "%s on a %s state: %s [tolerance %.1e]" % (method, lab, what, tol), case)

            def num(x):
                return float(np.real(x))

            kw = {"cutoff": Dref - 2} if conf["backend"] == "bosonic" else {}
            for m in range(n):
                rep.monitor("nongauss:mean_photon")
                mean, var = st.mean_photon(m, **kw)
                rm, rv = f.mean_var_photon(m)
                if abs(num(mean) - rm) > tol * (1 + rm) or abs(num(var) - rv) > 3 * tol * (1 + rv):
                    V("mean_photon", "", "mode %d: (%.6f, %.6f), reference (%.6f, %.6f)" % (m, num(mean), num(var), rm, rv))
                rep.monitor("nongauss:quad_expectation")
                phi = float(rng.uniform(0, 6.28))
                qm, qv = st.quad_expectation(m, phi)
                mu, Vc = f.moments(hbar)
                c, s_ = np.cos(phi), np.sin(phi)
                rqm = c * mu[m] + s_ * mu[m + n]
                rqv = c * c * Vc[m, m] + s_ * s_ * Vc[m + n, m + n] + 2 * c * s_ * Vc[m, m + n]
                if abs(num(qm) - rqm) > tol * (1 + abs(rqm)) or abs(num(qv) - rqv) > 3 * tol * (1 + rqv):
                    V("quad_expectation", "", "mode %d phi %.3f: (%.6f, %.6f), reference (%.6f, %.6f)" % (m, phi, num(qm), num(qv), rqm, rqv))
                rep.monitor("nongauss:reduced_dm")
                Dm = Dq
                rd = np.asarray(st.reduced_dm([m], cutoff=Dm)) if conf["backend"] == "bosonic" else np.asarray(st.reduced_dm([m]))[:Dm, :Dm]
                rr = f.reduced(m)[:Dm, :Dm]
                d = float(np.max(np.abs(rd - rr)))
                rep.dev("nongauss.reduced_dm:%s/tol" % conf["backend"], d / tol, 1.0)
                if d > tol:
                    V("reduced_dm", "", "mode %d differs from the reference by %.3e" % (m, d))
                rep.monitor("nongauss:wigner")
                xs = np.array([-1.0, 0.3, 1.2]) * np.sqrt(hbar / 2)
                W = np.asarray(st.wigner(m, xs, xs))
                for i, x in enumerate(xs):
                    for j, pq in enumerate(xs):
                        ref = ng.wigner_point(f, m, x, pq, hbar)
                        got = W[j, i] if W.shape == (3, 3) else np.nan
                        if not abs(num(got) - ref) <= tol * 3:
                            V("wigner", "", "mode %d W(x=%.3f, p=%.3f) = %.6f, reference %.6f" % (m, x, pq, num(got), ref))
                            break
                    else:
                        continue
                    break
            rep.monitor("nongauss:fock_prob")
            worst = 0.0
            for pat in itertools.product(range(4), repeat=n):
                if conf["backend"] == "bosonic":
                    pr = st.fock_prob(list(pat), cutoff=sum(pat) + 2)
                else:
                    pr = st.fock_prob(list(pat))
                worst = max(worst, abs(num(pr) - float(P[pat])))
            rep.dev("nongauss.fock_prob:%s/tol" % conf["backend"], worst / tol, 1.0)
            if worst > tol:
                V("fock_prob", "", "photon-number probabilities differ from the reference by %.3e" % worst)
            rep.monitor("nongauss:parity_expectation")
            modes = list(range(n)) if rng.random() < 0.5 else [int(rng.integers(n))]
            par = st.parity_expectation(modes)
            rp_ = f.parity(modes)
            if abs(num(par) - rp_) > 5 * tol:
                V("parity_expectation", "", "modes %s: %.6f, reference %.6f" % (modes, num(par), rp_))
            rep.monitor("nongauss:fidelity")
            fv = st.fidelity_vacuum()
            if abs(num(fv) - float(P[(0,) * n])) > tol:
                V("fidelity_vacuum", "", "%.6f, reference %.6f" % (num(fv), float(P[(0,) * n])))
            al = [complex(rng.uniform(-0.7, 0.7), rng.uniform(-0.7, 0.7)) for _ in range(n)]
            fc = st.fidelity_coherent(al)
            rfc = f.fidelity_coherent(al)
            if abs(num(fc) - rfc) > tol:
                V("fidelity_coherent", "", "alpha %s: %.6f, reference %.6f" % (np.round(al, 3).tolist(), num(fc), rfc))
            if n == 2:
                rep.monitor("nongauss:number_expectation")
                try:
                    ne, _ = st.number_expectation([0, 1])
                    k = np.arange(f.D)
                    rne = float(np.sum(P * np.outer(k, k)))
                    if abs(num(ne) - rne) > 5 * tol * (1 + rne):
                        V("number_expectation", "", "<n0 n1> = %.6f, reference %.6f" % (num(ne), rne))
                except NotImplementedError:
                    rep.observe("nongauss:number_expectation-not-implemented:" + conf["backend"])
    finally:
        sf.hbar = 2


def plan(tier, seed, scale=1.0):
    n = int((12 if tier == "quick" else 250) * scale)
    return [{"n": n, "nn": max(2, int((3 if tier == "quick" else 60) * scale)), "timeout": 6000} for _ in range(16)]


def run_shard(shard, rep):
    env = load()
    rng = np.random.default_rng([shard["seed"], shard["id"], 16])
    for i in range(shard["n"]):
        case = gen_state(rng)
        case["hbar"] = float(rng.choice([2.0, 2.0, 1.0]))
        case["qseed"] = int(rng.integers(2 ** 31))
        try:
            run_case(case, rep, env)
        except Exception as e:
            rep.error("run_case", e)
    from .. import nongauss

    for i in range(shard.get("nn", 0)):
        case = nongauss.gen_case(rng)
        case["nongauss"] = True
        case["hbar"] = float(rng.choice([2.0, 2.0, 1.0]))
        case["qseed"] = int(rng.integers(2 ** 31))
        try:
            run_nongauss(case, rep, env)
        except Exception as e:
            import traceback

            tb = traceback.extract_tb(e.__traceback__)
            rep.violation("state-method", "exception:non-gaussian:" + type(e).__name__, "%s: %s at %s" % (
                type(e).__name__, str(e)[:160], "%s:%s" % (tb[-1].filename.split("/")[-1], tb[-1].name) if tb else "?"), case)


def replay(case, rep):
    if case.get("nongauss"):
        return run_nongauss(case, rep, load())
    run_case(case, rep, load())
