"""C12 — hardware compilation conforms to the device and preserves the experiment.

Every call of Program.compile(device=..., compiler=...) made by the workload is observed at its boundary: it must
either raise CircuitError / ValueError or return a circuit that

* matches the device layout gate for gate and mode for mode  (harness's own layout parser; per-wire gate sequences of
  the compiled circuit and of the layout must be identical, which is DAG equality),
* carries every parameter inside the ranges of the device specification (own range arithmetic on the spec dict; one
  placeholder = one value; literals of the layout reproduced),
* yields the same photon statistics as the source program: both circuits are simulated by RefGauss (independent of
  the library's simulators and decompositions); for the unitary-level compilers the Gaussian states must be equal,
  for Xcov the photon-number distributions up to 4 photons (brute-force hafnians, vf.refphot) and the phase-blind
  moments |<a_i^dag a_j>|, |<a_i a_j>| must agree.

Devices are generated (2-5 mode pairs, several squeezing-range shapes); time-domain: Borealis-type loop devices with
generated loop-phase certificates, compared with the explicit loop (one reference mode per pulse).
"""
import itertools
import re

import numpy as np

from ..common import setup_paths, rnd
from .. import gen
from .. import refgauss as rg
from .. import refphot as rp

PROPERTY = "C12"
RULE = ("seeded device specifications (X-series with 2-5 mode pairs, squeezing ranges [0,1] / {0} u [a,b] / [a,b]; Borealis-type "
        "loop devices with random loop-phase certificates, 46-60 time bins; single-loop homodyne devices for the TDM / TD2 compilers "
        "with 2-8 time bins, fixed squeezing literal, interval and single-value ranges) x source programs (exact template; squeezers in any "
        "order, missing, zero, repeated, negative, out of range; the same interferometer on both halves given as Interferometer "
        "in any mesh, as beamsplitter/rotation/MZ sequences, Haar / permutation / identity / real / block-diagonal; programs "
        "only Xcov can take (phases on the squeezers, extra idler phases, BipartiteGraphEmbed, single-mode squeezers + "
        "beamsplitters); structurally invalid programs) x compilers (Xstrict, Xunitary, Xcov, borealis). non-trivial = compile "
        "returned a circuit for a source with >= 1 non-zero squeezer and a non-diagonal interferometer; distinct = (device, "
        "compiler, rounded source).")
ASSUMPTIONS = [
    "range membership uses the documented absolute tolerance of the device ranges (1e-5)",
    "source programs containing BipartiteGraphEmbed are given their meaning by the library's own gaussian simulator "
    "(decompositions are C02's subject); every other source and every compiled circuit is simulated by RefGauss",
    "Xcov equivalence is decided on all photon patterns with <= 2 photons, sampled 4-photon patterns and the phase-blind "
    "second moments",
    "Borealis: when the compiler reports that phases had to be shifted by pi (documented hardware limitation) only "
    "conformance is judged, not equivalence",
]
REQUIRED_MONITORS = ["conformance:layout", "conformance:ranges", "equivalence:state", "equivalence:photon-statistics",
                     "source-untouched", "recompile-same",
                     "rejections", "tdm:conformance", "tdm:equivalence", "tdm1:conformance", "tdm1:unchanged",
                     "limits:mode-count", "limits:measurement-count"]
MAX_SKIP_FRACTION = 0.05

TWO_PI = 2 * np.pi


# ---------------------------------------------------------------------------------------------------
# device generation
# ---------------------------------------------------------------------------------------------------

def mesh_pairs(N):
    """Rectangular (Clements) mesh: layer l couples (k, k+1) for k = l mod 2, l = 0..N-1."""
    out = []
    for l in range(N):
        for k in range(l % 2, N - 1, 2):
            out.append((k, k + 1))
    return out


def make_layout(N, target):
    lines = ["name template_%dx2" % N, "version 1.0", "target %s (shots=1)" % target, ""]
    for i in range(N):
        lines.append("S2gate({squeezing_amplitude_%d}, 0.0) | [%d, %d]" % (i, i, i + N))
    pairs = mesh_pairs(N)
    for off in (0, N):
        for k, (a, b) in enumerate(pairs):
            lines.append("MZgate({phase_%d}, {phase_%d}) | [%d, %d]" % (2 * k, 2 * k + 1, a + off, b + off))
    for i in range(2 * N):
        lines.append("Rgate({final_phase_%d}) | [%d]" % (i, i))
    lines.append("MeasureFock() | [%s]" % ", ".join(str(i) for i in range(2 * N)))
    return "\n".join(lines) + "\n"


def make_spec(N, sq_shape):
    target = "X%d_01" % (2 * N)
    gp = {}
    for i in range(N):
        gp["squeezing_amplitude_%d" % i] = sq_shape
    for k in range(N * (N - 1)):
        gp["phase_%d" % k] = [0, [0, TWO_PI]]
    for i in range(2 * N):
        gp["final_phase_%d" % i] = [0, [0, TWO_PI]]
    return {"target": target, "layout": make_layout(N, target), "modes": 2 * N, "compiler": [], "gate_parameters": gp}


def in_ranges(v, shape, atol=1e-5):
    for r in shape:
        lo, hi = (r, r) if not isinstance(r, (list, tuple)) else (r[0], r[-1])
        if lo - atol <= v <= hi + atol:
            return True
    return False


LINE = re.compile(r"^\s*([A-Za-z0-9_]+)\((.*)\)\s*\|\s*\[?([0-9, ]+)\]?\s*$")


def parse_layout(text):
    out = []
    for line in text.splitlines():
        line = line.split("#")[0].strip()
        m = LINE.match(line)
        if not m:
            continue
        args = [a.strip() for a in m.group(2).split(",")] if m.group(2).strip() else []
        toks = []
        for a in args:
            if a.startswith("{") and a.endswith("}"):
                toks.append(("name", a[1:-1]))
            else:
                toks.append(("lit", float(a)))
        out.append((m.group(1), toks, tuple(int(x) for x in m.group(3).split(","))))
    return out


def per_wire(gates):
    w = {}
    for idx, (name, _, modes) in enumerate(gates):
        for m in modes:
            w.setdefault(m, []).append((name, tuple(modes), idx))
    return w


def conformance(layout_gates, compiled, spec):
    """Returns (list of (kind, text) problems, parameter values by placeholder)."""
    problems = []
    lw, cw = per_wire(layout_gates), per_wire(compiled)
    if sorted(lw) != sorted(cw):
        return [("layout-mismatch", "modes used %s, layout uses %s" % (sorted(cw), sorted(lw)))], {}
    match = {}
    for m in lw:
        a = [(g[0], g[1]) for g in lw[m]]
        b = [(g[0], g[1]) for g in cw[m]]
        if a != b:
            return [("layout-mismatch", "mode %d carries %s, the layout prescribes %s" % (m, b, a))], {}
        for gl, gc in zip(lw[m], cw[m]):
            if match.setdefault(gc[2], gl[2]) != gl[2]:
                return [("layout-mismatch", "gate %d of the compiled circuit matches different layout gates on different wires" % gc[2])], {}
    if len(match) != len(layout_gates) or len(compiled) != len(layout_gates):
        return [("layout-mismatch", "%d gates, the layout has %d" % (len(compiled), len(layout_gates)))], {}
    values = {}
    for ci, li in match.items():
        name, toks, modes = layout_gates[li]
        cp = compiled[ci][1]
        if len(cp) < len(toks):
            problems.append(("layout-mismatch", "%s on %s has %d parameters, layout has %d" % (name, modes, len(cp), len(toks))))
            continue
        for (kind, t), v in zip(toks, cp):
            try:
                v = float(v)
            except Exception:
                problems.append(("parameter-not-numeric", "%s on %s: %r" % (name, modes, v)))
                continue
            if kind == "lit":
                if abs(v - t) > 1e-9:
                    problems.append(("literal-changed", "%s on %s: layout fixes %g, compiled circuit has %.10g" % (name, modes, t, v)))
            else:
                if t in values and abs(values[t] - v) > 1e-6:
                    problems.append(("placeholder-inconsistent", "{%s} is %.10g on one gate and %.10g on another" % (t, values[t], v)))
                values.setdefault(t, v)
                shape = spec["gate_parameters"].get(t)
                if shape is not None and not in_ranges(v, shape):
                    problems.append(("out-of-range", "{%s} = %.10g outside %s (%s on %s)" % (t, v, shape, name, modes)))
    return problems, values


# ---------------------------------------------------------------------------------------------------
# source programs
# ---------------------------------------------------------------------------------------------------

def rand_unitary(rng, N):
    c = str(rng.choice(["haar", "haar", "haar", "identity", "permutation", "real", "block", "phases", "float_orth"]))
    if c == "haar" or N == 1:
        return c, gen.haar(rng, N)
    if c == "identity":
        return c, np.eye(N, dtype=complex)
    if c == "permutation":
        return c, np.eye(N, dtype=complex)[rng.permutation(N)]
    if c == "real":
        return c, gen.real_orth(rng, N).astype(complex)
    if c == "float_orth":
        return c, np.asarray(gen.real_orth(rng, N), dtype=float)
    if c == "phases":
        return c, np.diag(np.exp(1j * rng.uniform(0, TWO_PI, N)))
    k = int(rng.integers(1, N))
    from scipy.linalg import block_diag

    return c, block_diag(gen.haar(rng, k), gen.haar(rng, N - k)).astype(complex)


def cplx(U):
    U = np.asarray(U)
    return [[[float(np.real(x)), float(np.imag(x))] for x in row] for row in U]


def uncplx(L):
    return np.array([[complex(a, b) for a, b in row] for row in L])


def gate_sequence(rng, N):
    """Random passive gate sequence on N modes (list of specs on the signal half)."""
    seq = []
    for _ in range(int(rng.integers(1, 2 * N + 2))):
        r = rng.random()
        if N >= 2 and r < 0.45:
            a = int(rng.integers(N - 1)) if rng.random() < 0.7 else None
            if a is None:
                a, b = (int(x) for x in rng.choice(N, 2, replace=False))
            else:
                b = a + 1
            seq.append({"op": "BSgate", "p": [float(rng.uniform(0, np.pi / 2)), float(rng.choice([0.0, np.pi / 2, float(rng.uniform(0, TWO_PI))]))], "m": [a, b]})
        elif N >= 2 and r < 0.7:
            a = int(rng.integers(N - 1))
            seq.append({"op": "MZgate", "p": [float(rng.uniform(0, TWO_PI)), float(rng.uniform(0, TWO_PI))], "m": [a, a + 1]})
        else:
            seq.append({"op": "Rgate", "p": [float(rng.uniform(-np.pi, TWO_PI))], "m": [int(rng.integers(N))]})
    return seq


def gen_x_case(rng):
    N = int(rng.choice([2, 2, 3, 3, 4, 4, 5]))
    # a bare number is a single allowed value, a pair is an interval (device specification format)
    shape = [[0, 1], [[0, 1]], [0, [0.15, 1.0]], [[0.1, 0.9]], [[0, 1]], [[0, 1.5]]][int(rng.integers(6))]

    def valid_sq(nonzero=False):
        opts = [r for r in shape if not (nonzero and not isinstance(r, list) and r == 0)] or shape
        r = opts[int(rng.integers(len(opts)))]
        if isinstance(r, list):
            lo = max(r[0], 0.05) if nonzero else r[0]
            return float(rng.uniform(lo, r[1]))
        return float(r)

    zero_ok = in_ranges(0.0, shape)
    compiler = str(rng.choice(["Xstrict", "Xunitary", "Xunitary", "Xcov", "Xcov"]))
    kind = str(rng.choice(["template", "template-manual", "unitary", "unitary", "gates", "cov", "invalid"]))
    if compiler == "Xstrict":
        kind = str(rng.choice(["template", "template-manual", "template-manual", "template-broken", "unitary"]))
    if kind == "cov" and compiler != "Xcov":
        kind = "unitary"
    case = {"family": "x", "N": N, "shape": shape, "compiler": compiler, "kind": kind, "share": bool(rng.random() < 0.3)}
    common_sq = valid_sq(nonzero=True) if case["share"] else None

    def squeezers(allow_bad=True):
        out = []
        bad_one = int(rng.integers(N)) if (allow_bad and rng.random() < 0.12) else -1
        for i in range(N):
            r = rng.random()
            if r < 0.12 and (zero_ok or rng.random() < 0.1):
                continue  # missing squeezer (= zero squeezing)
            val = valid_sq(nonzero=True) if (common_sq is None or rng.random() < 0.3) else common_sq
            if r < 0.22 and zero_ok:
                val = 0.0
            if i == bad_one:
                val = float(rng.choice([-0.4, 1.2, 0.05, 1.7, 0.5]))
            if rng.random() < 0.15 and val > 0.2 and isinstance(shape[-1], list):
                # repeated squeezer: two gates that add up to the intended value
                part = float(rng.uniform(0.05, val - 0.05)) if common_sq is None else val / 2
                out.append({"op": "S2gate", "p": [part, 0.0], "m": [i, i + N]})
                out.append({"op": "S2gate", "p": [val - part, 0.0], "m": [i, i + N]})
            else:
                out.append({"op": "S2gate", "p": [val, 0.0], "m": [i, i + N]})
        order = rng.permutation(len(out))
        return [out[int(k)] for k in order]

    if kind in ("template", "template-broken", "template-manual"):
        params = {}
        for i in range(N):
            params["squeezing_amplitude_%d" % i] = valid_sq()
        for k in range(N * (N - 1)):
            params["phase_%d" % k] = float(rng.uniform(0, TWO_PI))
        for i in range(N):
            # (Device.create_program compiles with Xunitary, which wants identical halves)
            params["final_phase_%d" % i] = params["final_phase_%d" % (i + N)] = float(rng.uniform(0, TWO_PI))
        case["params"] = params
        if kind == "template-manual":
            # written by hand: any order compatible with the wires, independent final phases on the two halves
            if rng.random() < 0.6:
                for i in range(N, 2 * N):
                    params["final_phase_%d" % i] = float(rng.uniform(0, TWO_PI))
            case["order_seed"] = int(rng.integers(2 ** 31))
            case["optimize"] = bool(rng.random() < 0.2)
        if kind == "template-broken":
            case["break"] = str(rng.choice(["drop-gate", "swap-modes", "idler-phase", "squeezing-out-of-range", "extra-gate",
                                            "squeezer-phase"]))
        return case
    cmds = squeezers()
    if kind == "unitary":
        if rng.random() < 0.12:
            ph = float(rng.uniform(0.1, TWO_PI))
            uniform = bool(rng.random() < 0.5)
            for c in cmds:
                c["p"][1] = ph if uniform else float(rng.uniform(0.1, TWO_PI))
            case["squeezer_phases"] = "uniform" if uniform else "different"
        ucls, U = rand_unitary(rng, N)
        mesh = str(rng.choice(["rectangular", "rectangular_symmetric", "triangular", "rectangular_phase_end"]))
        case["ucls"] = ucls
        for off in (0, N):
            cmds.append({"op": "Interferometer", "U": cplx(U), "real": bool(not np.iscomplexobj(U)), "mesh": mesh, "m": [i + off for i in range(N)]})
    elif kind == "gates":
        seq = gate_sequence(rng, N)
        interleave = bool(rng.random() < 0.5)
        sig = [dict(c) for c in seq]
        idl = [dict(c, m=[x + N for x in c["m"]]) for c in seq]
        if interleave:
            for a, b in zip(sig, idl):
                cmds += [a, b]
        else:
            cmds += sig + idl
    elif kind == "cov":
        sub = str(rng.choice(["squeezer-phases", "idler-phases", "bipartite", "single-mode-squeezers"]))
        case["sub"] = sub
        if sub == "squeezer-phases":
            for c in cmds:
                c["p"][1] = float(rng.uniform(0, TWO_PI))
            _, U = rand_unitary(rng, N)
            for off in (0, N):
                cmds.append({"op": "Interferometer", "U": cplx(U), "mesh": "rectangular", "m": [i + off for i in range(N)]})
        elif sub == "idler-phases":
            _, U = rand_unitary(rng, N)
            D = np.diag(np.exp(1j * rng.uniform(0, TWO_PI, N)))
            cmds.append({"op": "Interferometer", "U": cplx(U), "mesh": "rectangular", "m": list(range(N))})
            cmds.append({"op": "Interferometer", "U": cplx(np.asarray(U, dtype=complex) @ D), "mesh": "rectangular", "m": [i + N for i in range(N)]})
        elif sub == "bipartite":
            A = rng.uniform(0, 1, (N, N)) * (rng.random((N, N)) < 0.8)
            if rng.random() < 0.5:
                A = (A + A.T) / 2
            if not A.any():
                A[0, 0] = 1.0
            cmds = [{"op": "BipartiteGraphEmbed", "A": A.tolist(), "mean": float(rng.uniform(0.1, 0.5)), "m": list(range(2 * N))}]
        else:
            cmds = []
            for i in range(N):
                r = float(rng.uniform(0.1, 0.7))
                cmds.append({"op": "Sgate", "p": [r, 0.0], "m": [i]})
                cmds.append({"op": "Sgate", "p": [-r, 0.0], "m": [i + N]})
            for i in range(N):
                cmds.append({"op": "BSgate", "p": [np.pi / 4, 0.0], "m": [i, i + N]})
            _, U = rand_unitary(rng, N)
            for off in (0, N):
                cmds.append({"op": "Interferometer", "U": cplx(U), "mesh": "rectangular", "m": [i + off for i in range(N)]})
    else:  # structurally invalid
        bad = str(rng.choice(["mixing", "different-halves", "gate-before-squeezers", "wrong-pairs", "different-phases",
                              "not-all-measured", "active-after", "homodyne", "non-primitive", "double-measure"]))
        case["bad"] = bad
        _, U = rand_unitary(rng, N)
        if bad == "mixing" and rng.random() < 0.5:
            # mixes the halves although both diagonal blocks are identical: [[c V, i s V], [i s V, c V]]
            th = float(rng.uniform(0.3, 1.2))
            Vh = np.asarray(U, dtype=complex)
            W = np.block([[np.cos(th) * Vh, 1j * np.sin(th) * Vh], [1j * np.sin(th) * Vh, np.cos(th) * Vh]])
            cmds.append({"op": "Interferometer", "U": cplx(W), "mesh": "rectangular", "m": list(range(2 * N))})
            case["bad"] = "mixing-symmetric"
        elif bad == "mixing":
            _, W = rand_unitary(rng, 2 * N)
            W = gen.haar(rng, 2 * N)
            cmds.append({"op": "Interferometer", "U": cplx(W), "mesh": "rectangular", "m": list(range(2 * N))})
        elif bad == "different-halves":
            cmds.append({"op": "Interferometer", "U": cplx(U), "mesh": "rectangular", "m": list(range(N))})
            cmds.append({"op": "Interferometer", "U": cplx(gen.haar(rng, N)), "mesh": "rectangular", "m": [i + N for i in range(N)]})
        elif bad == "gate-before-squeezers":
            cmds = [{"op": "Rgate", "p": [0.4], "m": [0]}, {"op": "BSgate", "p": [0.3, 0.0], "m": [0, 1]}] + [
                {"op": "S2gate", "p": [0.5, 0.0], "m": [i, i + N]} for i in range(N)]
        elif bad == "wrong-pairs":
            cmds = [{"op": "S2gate", "p": [0.5, 0.0], "m": [0, 1]}]
        elif bad == "different-phases":
            cmds = [{"op": "S2gate", "p": [0.3, 0.0], "m": [0, N]}, {"op": "S2gate", "p": [0.2, 0.7], "m": [0, N]}]
        elif bad == "active-after":
            cmds.append({"op": "Sgate", "p": [0.3, 0.0], "m": [0]})
        elif bad == "non-primitive":
            cmds.append({"op": "Dgate", "p": [0.3, 0.0], "m": [0]})
        if bad in ("not-all-measured", "homodyne", "double-measure"):
            for off in (0, N):
                cmds.append({"op": "Interferometer", "U": cplx(U), "mesh": "rectangular", "m": [i + off for i in range(N)]})
    case["cmds"] = cmds
    return case


# ---------------------------------------------------------------------------------------------------
# building / simulating
# ---------------------------------------------------------------------------------------------------

def build_source(env, case, device):
    sf, ops = env["sf"], env["ops"]
    N = case["N"]
    if case["kind"] in ("template", "template-broken"):
        prog = device.create_program(**case["params"])
        br = case.get("break")
        if br == "drop-gate":
            del prog.circuit[N]  # first MZgate
        elif br == "swap-modes":
            c = prog.circuit[N]
            c.reg = [c.reg[1], c.reg[0]]
        elif br == "idler-phase":
            k = N + len(mesh_pairs(N))  # first idler MZgate
            prog.circuit[k].op.p[0] = prog.circuit[k].op.p[0] + 0.3
        elif br == "squeezing-out-of-range":
            prog.circuit[0].op.p[0] = 2.5
        elif br == "squeezer-phase":
            prog.circuit[0].op.p[1] = 0.4
        elif br == "extra-gate":
            prog.circuit.insert(N, sf.program_utils.Command(ops.Rgate(0.3), [prog.register[0]]))
        return prog
    if case["kind"] == "template-manual":
        lay = parse_layout(device.layout)
        rng = np.random.default_rng(case["order_seed"])
        # random order compatible with the wires: repeatedly pick any gate all of whose predecessors are placed
        remaining = list(range(len(lay)))
        placed = []
        while remaining:
            ready = [k for k in remaining if not any(set(lay[j][2]) & set(lay[k][2]) for j in remaining if j < k)]
            k = ready[int(rng.integers(len(ready)))]
            placed.append(k)
            remaining.remove(k)
        prog = sf.Program(2 * N)
        with prog.context as q:
            for k in placed:
                name, toks, modes = lay[k]
                args = [case["params"][t] if kind == "name" else t for kind, t in toks]
                regs = tuple(q[i] for i in modes)
                getattr(ops, name)(*args) | (regs if len(regs) > 1 else regs[0])
        return prog
    prog = sf.Program(2 * N)
    bad = case.get("bad")
    shared = {}
    with prog.context as q:
        for c in case["cmds"]:
            regs = tuple(q[i] for i in c["m"])
            if c["op"] == "Interferometer":
                U = uncplx(c["U"])
                if c.get("real"):
                    U = np.real(U).astype(float)
                ops.Interferometer(U, mesh=c["mesh"]) | regs
            elif c["op"] == "BipartiteGraphEmbed":
                ops.BipartiteGraphEmbed(np.array(c["A"]), mean_photon_per_mode=c["mean"]) | regs
            else:
                key = (c["op"], tuple(c["p"]))
                if case.get("share") and key in shared:
                    op = shared[key]  # the same gate object applied in several places (legal front-end usage)
                else:
                    op = shared[key] = getattr(ops, c["op"])(*c["p"])
                op | (regs if len(regs) > 1 else regs[0])
        if bad == "not-all-measured":
            ops.MeasureFock() | tuple(q[i] for i in range(2 * N - 1))
        elif bad == "homodyne":
            ops.MeasureHomodyne(0.0) | q[0]
            ops.MeasureFock() | tuple(q[i] for i in range(1, 2 * N))
        elif bad == "double-measure":
            ops.MeasureFock() | tuple(q[i] for i in range(2 * N))
            ops.MeasureFock() | q[0]
        else:
            ops.MeasureFock() | tuple(q[i] for i in range(2 * N))
    return prog


def circuit_list(prog, evaluate):
    out = []
    for c in prog.circuit:
        p = []
        for x in c.op.p:
            v = evaluate(x)
            p.append(v)
        out.append((type(c.op).__name__, p, tuple(r.ind for r in c.reg)))
    return out


def simulate(gates, n):
    """RefGauss state of a list of (name, params, modes); returns None if an op is outside RefGauss."""
    g = rg.GState(n)
    for name, p, modes in gates:
        if name == "MeasureFock":
            continue
        if name not in rg.GAUSSIAN_GATES:
            return None
        q = [np.asarray(x) if np.ndim(x) else float(np.real(x)) for x in p]
        rg.apply_op(g, name, q, list(modes), False, 2.0)
    return g


def phase_blind(mu, V):
    n = len(mu) // 2
    _, s = rp.complex_cov(mu, V)
    return np.abs(s[:n, :n]), np.abs(s[:n, n:])


def photon_stats_dev(mu1, V1, mu2, V2, rng, max4=40):
    n = len(mu1) // 2
    pats = [tuple([0] * n)]
    for i in range(n):
        for j in range(i, n):
            p = [0] * n
            p[i] += 1
            p[j] += 1
            pats.append(tuple(p))
    four = list(rp.patterns_with_total(n, 4)) if n <= 6 else []
    if four:
        idx = rng.choice(len(four), min(max4, len(four)), replace=False)
        pats += [four[int(k)] for k in idx]
    worst = 0.0
    wp = None
    for p in pats:
        d = abs(rp.fock_prob(mu1, V1, p) - rp.fock_prob(mu2, V2, p))
        if d > worst:
            worst, wp = d, p
    return worst, wp, len(pats)


def load():
    setup_paths()
    import warnings

    warnings.filterwarnings("ignore")
    import strawberryfields as sf
    from strawberryfields import ops
    from strawberryfields.parameters import par_evaluate
    from strawberryfields.program_utils import CircuitError
    from strawberryfields.device import Device

    return {"sf": sf, "ops": ops, "par_evaluate": par_evaluate, "CircuitError": CircuitError, "Device": Device}


def reset_compilers(env):
    from strawberryfields.compilers import compiler_db

    for c in compiler_db.values():
        c.reset_circuit()


def run_x_case(case, rep, env):
    sf = env["sf"]
    V = lambda locus, kind, what: rep.violation(locus, kind, what, case)
    N = case["N"]
    spec = make_spec(N, case["shape"])
    reset_compilers(env)
    device = env["Device"](spec=spec)
    layout_gates = parse_layout(spec["layout"])
    comp = case["compiler"]
    try:
        src = build_source(env, case, device)
    except Exception as e:
        rep.skip("source program could not be built: %s" % type(e).__name__)
        return
    ev = lambda x: (np.asarray(x) if np.ndim(x) else complex(env["par_evaluate"](x)))
    src_gates = circuit_list(src, ev)
    nonzero_sq = any(g[0] in ("S2gate", "Sgate") and abs(g[1][0]) > 1e-9 for g in src_gates) or case["kind"] == "cov"
    try:
        compiled = src.compile(device=device, compiler=comp, **({"optimize": True} if case.get("optimize") else {}))
    except (env["CircuitError"], ValueError) as e:
        rep.monitor("rejections")
        rep.observe("rejected:%s:%s" % (case["kind"], type(e).__name__))
        rep.case(["x", N, case["shape"], comp, case["kind"], rnd(case.get("cmds", case.get("params")), 5)], False)
        rep.seen("rejection-messages", "%s: %s" % (type(e).__name__, re.sub(r"[0-9.]+", "#", str(e))[:90]))
        return
    except NotImplementedError as e:
        rep.observe("rejected:NotImplementedError")
        rep.case(["x", N, comp, case["kind"], "nie"], False)
        return
    rep.observe("compiled:%s:%s" % (comp, case["kind"]))
    cgates = circuit_list(compiled, ev)

    # ---- compiling must not rewrite the source program, and compiling it again must give the same circuit
    rep.monitor("source-untouched")

    def same(g1, g2):
        if len(g1) != len(g2):
            return False
        for a, b in zip(g1, g2):
            if a[0] != b[0] or a[2] != b[2] or len(a[1]) != len(b[1]):
                return False
            for x, y in zip(a[1], b[1]):
                if np.shape(x) != np.shape(y) or np.max(np.abs(np.asarray(x) - np.asarray(y))) > 1e-12:
                    return False
        return True

    if not same(src_gates, circuit_list(src, ev)):
        V("compile:" + comp, "source-program-modified", "%s changed the parameters of the program it was given (source kind %s%s)"
          % (comp, case["kind"], ", shared gate objects" if case.get("share") else ""))
        return
    try:
        again = circuit_list(src.compile(device=device, compiler=comp), ev)
        rep.monitor("recompile-same")
        if not same(cgates, again):
            V("compile:" + comp, "recompile-differs", "compiling the same program a second time with %s gives a different circuit" % comp)
            return
    except Exception as e:
        V("compile:" + comp, "recompile-differs", "the second compilation of the same program raised %s: %s" % (type(e).__name__, str(e)[:120]))
        return
    mixing = any(g[0] in ("BSgate", "MZgate", "Interferometer", "BipartiteGraphEmbed") for g in src_gates)
    rep.case(["x", N, case["shape"], comp, case["kind"], rnd(case.get("cmds", case.get("params")), 5)], nonzero_sq and mixing)

    # ---- conformance
    rep.monitor("conformance:layout")
    rep.monitor("conformance:ranges")
    problems, values = conformance(layout_gates, [(g[0], [np.real(x) for x in g[1]], g[2]) for g in cgates], spec)
    for kind, text in problems[:3]:
        V("compile:" + comp, "non-conforming:" + kind, "%s returned a circuit that does not conform to the device: %s [source kind %s%s]"
          % (comp, text, case["kind"], (", " + case.get("break", case.get("bad", ""))) if case.get("break") or case.get("bad") else ""))

    # ---- equivalence
    n = 2 * N
    gc = simulate(cgates, n)
    gs = simulate(src_gates, n)
    if gs is None:
        # BipartiteGraphEmbed source: meaning given by the library's gaussian simulator
        p2 = sf.Program(n)
        with p2.context as q:
            for c in src.circuit:
                if type(c.op).__name__ != "MeasureFock":
                    c.op | tuple(q[r.ind] for r in c.reg)
        st = sf.Engine("gaussian").run(p2).state
        gs = rg.GState(n)
        gs.mu = st.means() * np.sqrt(2.0 / sf.hbar)
        gs.V = st.cov() * (2.0 / sf.hbar)
        rep.observe("source-state-from-library-simulator")
    if gc is None:
        V("compile:" + comp, "non-conforming:foreign-gate", "compiled circuit contains gates outside the device gate set: %s"
          % sorted({g[0] for g in cgates}))
        return
    if comp in ("Xunitary", "Xstrict"):
        rep.monitor("equivalence:state")
        # the final layer of rotations of the layout is invisible to photon counting and freely chosen; compare up to it
        a1, b1 = phase_blind(gs.mu, gs.V)
        a2, b2 = phase_blind(gc.mu, gc.V)
        dev = max(float(np.max(np.abs(a1 - a2))), float(np.max(np.abs(b1 - b2))))
        full = max(float(np.max(np.abs(gs.V - gc.V))), float(np.max(np.abs(gs.mu - gc.mu))))
        rep.dev("x:state(unitary-level)", full, 1e-7 * (1 + np.max(np.abs(gs.V))))
        if full > 1e-7 * (1 + np.max(np.abs(gs.V))):
            V("compile:" + comp, "state-changed" if dev > 1e-7 * (1 + np.max(np.abs(gs.V))) else "state-changed:local-phases-only",
              "%s: Gaussian state of the compiled circuit differs from the source by %.3g (phase-blind moments by %.3g) [source %s]"
              % (comp, full, dev, case["kind"]))
            return
    rep.monitor("equivalence:photon-statistics")
    a1, b1 = phase_blind(gs.mu, gs.V)
    a2, b2 = phase_blind(gc.mu, gc.V)
    dev = max(float(np.max(np.abs(a1 - a2))), float(np.max(np.abs(b1 - b2))))
    tol = 1e-7 * (1 + np.max(np.abs(gs.V)))
    rep.dev("x:phase-blind-moments", dev, tol)
    if dev > tol:
        V("compile:" + comp, "statistics-changed:moments", "%s: |<a_i^dag a_j>| / |<a_i a_j>| of the compiled circuit differ from the source "
          "by %.3g [source %s%s]" % (comp, dev, case["kind"], ":" + case["sub"] if case.get("sub") else ""))
        return
    if N <= 3:
        w, wp, npat = photon_stats_dev(gs.mu, gs.V, gc.mu, gc.V, np.random.default_rng(N))
        rep.dev("x:photon-statistics", w, 1e-8)
        rep.observe("photon-patterns-compared", npat)
        if w > 1e-8:
            V("compile:" + comp, "statistics-changed:fock", "%s: P%s differs by %.3g between source and compiled circuit" % (comp, wp, w))


# ---------------------------------------------------------------------------------------------------
# time-domain devices (Borealis architecture)
# ---------------------------------------------------------------------------------------------------

DELAYS = [1, 6, 36]


def tdm_layout(target, nbins):
    lines = ["name template_borealis", "version 1.0", "target %s (shots=1)" % target,
             "type tdm (temporal_modes=%d, copies=1)" % nbins, ""]
    names = ["s", "r0", "bs0", "loop1_phase", "r1", "bs1", "loop2_phase", "r2", "bs2", "loop3_phase"]
    for i, nm in enumerate(names):
        lines += ["float array p%d[1, %d] =" % (i, nbins), "    {%s}" % nm]
    lines += ["", "",
              "Sgate({s}, 0.0) | 43", "Rgate({r0}) | 43", "BSgate({bs0}, 1.5707963267948966) | [42, 43]", "Rgate({loop0_phase}) | 43",
              "Rgate({r1}) | 42", "BSgate({bs1}, 1.5707963267948966) | [36, 42]", "Rgate({loop1_phase}) | 42",
              "Rgate({r2}) | 36", "BSgate({bs2}, 1.5707963267948966) | [0, 36]", "Rgate({loop2_phase}) | 36",
              "MeasureFock() | 0"]
    return "\n".join(lines) + "\n"


def tdm_spec(nbins):
    pi = np.pi
    return {"target": "borealis", "layout": tdm_layout("borealis", 259),
            "modes": {"temporal_max": 331, "concurrent": 44, "spatial": 1},
            "compiler": ["borealis"], "compiler_default": "borealis",
            "gate_parameters": {"s": [[0, 2]], "r0": [[-pi / 2, pi / 2]], "bs0": [[0, pi / 2]], "loop0_phase": [[-pi, pi]],
                                "r1": [[-pi / 2, pi / 2]], "bs1": [[0, pi / 2]], "loop1_phase": [[-pi, pi]],
                                "r2": [[-pi / 2, pi / 2]], "bs2": [[0, pi / 2]], "loop2_phase": [[-pi, pi]]}}


def gen_tdm_case(rng):
    L = int(rng.integers(46, 60))
    cls = str(rng.choice(["zero-phases", "small-phases", "random-phases", "zero-offsets", "user-offsets", "bad-range", "bad-topology",
                          "small-offsets", "small-offsets", "small-offsets", "user-offsets-small", "one-loop-offset"]))
    loop_phases = [float(x) for x in rng.uniform(-np.pi, np.pi, 3)]
    if cls == "zero-offsets":
        loop_phases = [0.0, 0.0, 0.0]
    if cls in ("small-offsets", "user-offsets-small"):
        # offsets so small that the accumulated compensation stays inside the modulator range: the compensation is
        # then exercised without the documented pi shifts, and equivalence can be judged
        loop_phases = [float(rng.uniform(-0.012, 0.012)), float(rng.uniform(-0.07, 0.07)), float(rng.uniform(-0.5, 0.5))]
    if cls == "one-loop-offset":
        loop_phases = [0.0, 0.0, 0.0]
        k = int(rng.integers(1, 3))
        loop_phases[k] = float(rng.uniform(-0.08, 0.08) if k == 1 else rng.uniform(-0.6, 0.6))
    s = rng.uniform(0.2, 1.0, L) * (rng.random(L) < 0.85)
    bs = [rng.uniform(0, np.pi / 2, L) for _ in range(3)]
    if cls in ("zero-phases",):
        r = [np.zeros(L) for _ in range(3)]
    elif cls in ("small-phases", "small-offsets", "user-offsets-small", "one-loop-offset"):
        r = [rng.uniform(-0.2, 0.2, L) for _ in range(3)]
    else:
        r = [rng.uniform(-np.pi / 2, np.pi / 2, L) for _ in range(3)]
    if cls == "bad-range":
        which = int(rng.integers(3))
        if which == 0:
            s[int(rng.integers(L))] = 2.6
        elif which == 1:
            bs[int(rng.integers(3))][int(rng.integers(L))] = 2.0
        else:
            s[int(rng.integers(L))] = -0.3
    return {"family": "tdm", "L": L, "cls": cls, "loop_phases": loop_phases, "s": s.tolist(),
            "r": [x.tolist() for x in r], "bs": [x.tolist() for x in bs]}


def tdm_loop_state(L, s, r, bs, offsets):
    """Explicit loop, one reference mode per pulse: register position pos at step t is reference mode t + pos."""
    g = rg.GState(L + 43)
    n = [43, 42, 36, 0]
    for t in range(L):
        m = [t + x for x in n]
        rg.apply_op(g, "Sgate", [s[t], 0.0], [m[0]])
        for i in range(3):
            rg.apply_op(g, "Rgate", [r[i][t]], [m[i]])
            rg.apply_op(g, "BSgate", [bs[i][t], np.pi / 2], [m[i + 1], m[i]])
            if offsets is not None and offsets[i] != 0:
                rg.apply_op(g, "Rgate", [offsets[i]], [m[i]])
    return g


def run_tdm_case(case, rep, env):
    sf, ops = env["sf"], env["ops"]
    V = lambda locus, kind, what: rep.violation(locus, kind, what, case)
    import logging

    L = case["L"]
    spec = tdm_spec(L)
    cert = {"target": "borealis", "finished_at": "2022-02-03T15:00:59.641616+00:00", "loop_phases": case["loop_phases"],
            "schmidt_number": 1.333, "common_efficiency": 0.55, "loop_efficiencies": [0.9, 0.8, 0.7],
            "squeezing_parameters_mean": {"low": [0.1], "high": [0.5], "medium": [0.3]}, "relative_channel_efficiencies": []}
    reset_compilers(env)
    device = env["Device"](spec=spec, cert=cert)
    n = [43, 42, 36, 0]
    prog = sf.TDMProgram(44)
    args = [case["s"], case["r"][0], case["bs"][0], case["r"][1], case["bs"][1], case["r"][2], case["bs"][2]]
    user = case["cls"] in ("user-offsets", "user-offsets-small")
    with prog.context(*args) as (p, q):
        ops.Sgate(p[0]) | q[n[0]]
        for i in range(3):
            ops.Rgate(p[2 * i + 1]) | q[n[i]]
            if case["cls"] == "bad-topology" and i == 1:
                ops.BSgate(p[2 * i + 2], np.pi / 2) | (q[n[i]], q[n[i + 1] + 1])
            else:
                ops.BSgate(p[2 * i + 2], np.pi / 2) | (q[n[i + 1]], q[n[i]])
            if user:
                ops.Rgate(case["loop_phases"][i]) | q[n[i]]
        ops.MeasureFock() | q[0]

    records = []

    class H(logging.Handler):
        def emit(self, record):
            records.append(record.getMessage())

    h = H()
    lg = logging.getLogger("strawberryfields.compilers.tdm")
    lg.addHandler(h)
    try:
        try:
            compiled = prog.compile(device=device)
        finally:
            lg.removeHandler(h)
    except (env["CircuitError"], ValueError) as e:
        rep.monitor("rejections")
        rep.observe("tdm-rejected:%s:%s" % (case["cls"], type(e).__name__))
        rep.case(["tdm", case["cls"], L, rnd(case["loop_phases"], 4)], False)
        return
    rep.case(["tdm", case["cls"], L, rnd(case["loop_phases"], 4), rnd(case["s"][:6], 4)], case["cls"] not in ("zero-offsets",))
    rep.observe("tdm-compiled:" + case["cls"])
    shifted = any("offset by pi" in m or "shifted by pi" in m for m in records)

    # ---- conformance: gate sequence of the layout, all values inside the ranges
    rep.monitor("tdm:conformance")
    lay = parse_tdm_layout(spec["layout"])
    got = [(type(c.op).__name__, tuple(r.ind for r in c.reg)) for c in compiled.circuit]
    exp = [(g[0], g[2]) for g in lay]
    if [(a, tuple(sorted(b))) for a, b in got] != [(a, tuple(sorted(b))) for a, b in exp]:
        V("compile:borealis", "non-conforming:layout-mismatch", "compiled gate sequence %s, layout %s" % (got, exp))
        return
    pe = env["par_evaluate"]
    arrays = [np.asarray(a, dtype=float).ravel() for a in compiled.tdm_params]
    gp = spec["gate_parameters"]
    loopvals = {}
    resolved = []  # per command: list of per-time-bin arrays / scalars
    for c, g in zip(compiled.circuit, lay):
        vals = []
        for x, (kind, tok) in zip(c.op.p, g[1]):
            nm = str(x).strip("{}")
            if re.fullmatch(r"p\d+", nm):
                arr = arrays[int(nm[1:])]
            else:
                arr = np.array([float(pe(x))])
            vals.append(arr)
            if kind == "name":
                shape = gp.get(tok)
                bad = [float(v) for v in arr if shape is not None and not in_ranges(float(v), shape)]
                if bad:
                    V("compile:borealis", "non-conforming:out-of-range", "{%s} takes values %s outside %s" % (tok, np.round(bad[:4], 6).tolist(), shape))
                if tok.startswith("loop"):
                    loopvals[tok] = float(arr[0])
            elif abs(float(arr[0]) - tok) > 1e-9:
                V("compile:borealis", "non-conforming:literal-changed", "%s on %s: layout fixes %g, compiled %g" % (g[0], g[2], tok, float(arr[0])))
        resolved.append(vals)
    for i in range(3):
        lv = loopvals.get("loop%d_phase" % i)
        if lv is None or abs(lv - case["loop_phases"][i]) > 1e-9:
            V("compile:borealis", "loop-offset-not-the-certificate", "loop %d offset in the compiled program is %s, certificate says %s"
              % (i, lv, case["loop_phases"][i]))

    # ---- equivalence with the offset-free source experiment
    if shifted:
        rep.observe("tdm:pi-shift-reported(equivalence not judged)")
        return
    rep.monitor("tdm:equivalence")
    # compiled arrays in circuit order: s, r0, bs0, [loop0], r1, bs1, [loop1], r2, bs2, [loop2]
    cs = resolved[0][0]
    cr = [resolved[1][0], resolved[4][0], resolved[7][0]]
    cbs = [resolved[2][0], resolved[5][0], resolved[8][0]]
    if any(len(a) != L for a in [cs] + cr + cbs):
        V("compile:borealis", "non-conforming:array-length", "compiled arrays have lengths %s for %d time bins" % ([len(a) for a in [cs] + cr + cbs], L))
        return
    # a user who writes the offsets herself has written the physical experiment; otherwise the source is offset-free
    g_src = tdm_loop_state(L, case["s"], case["r"], case["bs"], case["loop_phases"] if user else None)
    g_cmp = tdm_loop_state(L, cs, cr, cbs, case["loop_phases"])
    meas = list(range(43, L))
    m1, V1 = rp.reduced(g_src.mu, g_src.V, meas)
    m2, V2 = rp.reduced(g_cmp.mu, g_cmp.V, meas)
    a1, b1 = phase_blind(m1, V1)
    a2, b2 = phase_blind(m2, V2)
    dev = max(float(np.max(np.abs(a1 - a2))), float(np.max(np.abs(b1 - b2))))
    tol = 1e-7 * (1 + np.max(np.abs(V1)))
    rep.dev("tdm:phase-blind-moments", dev, tol)
    if dev > tol:
        V("compile:borealis", "statistics-changed:moments", "phase-blind second moments of the measured pulses differ by %.3g between the "
          "offset-free source loop and the compiled loop with the certificate's offsets (no pi shift was reported) [%s]" % (dev, case["cls"]))
        return
    # photon statistics of the brightest measured pulses
    energy = np.diag(a1)
    top = sorted(np.argsort(-energy)[: min(5, len(meas))].tolist())
    if energy[top].sum() > 1e-6:
        sub = top
        r1 = rp.reduced(m1, V1, sub)
        r2 = rp.reduced(m2, V2, sub)
        w, wp, npat = photon_stats_dev(r1[0], r1[1], r2[0], r2[1], np.random.default_rng(L), max4=25)
        rep.dev("tdm:photon-statistics", w, 1e-8)
        if w > 1e-8:
            V("compile:borealis", "statistics-changed:fock", "P%s over the brightest pulses differs by %.3g" % (wp, w))


# ---------------------------------------------------------------------------------------------------
# single-loop time-domain devices (TDM / TD2 compilers): the compiler only checks, it must not rewrite
# ---------------------------------------------------------------------------------------------------

def gen_tdm1_case(rng):
    tm = int(rng.integers(2, 9))
    cls = str(rng.choice(["exact", "exact", "exact", "literal-changed", "out-of-range", "wrong-gate", "wrong-modes", "too-many-bins",
                          "phase-literal-changed", "extra-gate", "boundary-values", "single-value-range", "wrong-concurrency",
                          "wrong-spatial", "gap-range", "gap-range"]))
    return {"family": "tdm1", "tm": tm, "cls": cls, "compiler": str(rng.choice(["TDM", "TD2"])), "r_lit": float(np.round(rng.uniform(0.2, 0.9), 4)),
            "bs": rng.uniform(0, TWO_PI, tm).tolist(), "r": rng.uniform(0, np.pi, tm).tolist(), "m": rng.uniform(0, TWO_PI, tm).tolist(),
            "temporal_max": int(rng.integers(tm, tm + 4)), "pass_compiler": bool(rng.random() < 0.5)}


def run_tdm1_case(case, rep, env):
    sf, ops = env["sf"], env["ops"]
    V = lambda locus, kind, what: rep.violation(locus, kind, what, case)
    tm, comp, cls = case["tm"], case["compiler"], case["cls"]
    layout = "\n".join([
        "name template_tdm", "version 1.0", "target %s (shots=1)" % comp, "type tdm (temporal_modes=%d, copies=1)" % tm, "",
        "float array p1[1, %d] =" % tm, "    {r}", "float array p2[1, %d] =" % tm, "    {bs}", "float array p3[1, %d] =" % tm, "    {m}", "",
        "Sgate(%s, 0) | 1" % repr(case["r_lit"]), "BSgate({bs}, 0) | (1, 0)", "Rgate({r}) | 1", "MeasureHomodyne({m}) | 0"]) + "\n"
    gp = {"bs": [0, [0, TWO_PI]], "r": [0, [0, np.pi], np.pi], "m": [0, [0, TWO_PI]]}
    if cls == "single-value-range":
        gp["r"] = [0, np.pi / 2, np.pi]
    if cls == "gap-range":
        # allowed sets with a gap: a single value plus an interval, two disjoint intervals
        gp["r"] = [0, [1.0, 2.0]]
        gp["bs"] = [[0, 1.0], [2.0, 3.0]]
    spec = {"target": comp, "layout": layout, "modes": {"concurrent": 3 if cls == "wrong-concurrency" else 2,
                                                        "spatial": 2 if cls == "wrong-spatial" else 1, "temporal_max": case["temporal_max"]},
            "compiler": [comp], "gate_parameters": gp}
    reset_compilers(env)
    device = env["Device"](spec=spec)
    bs, r, m = list(case["bs"]), list(case["r"]), list(case["m"])
    r_lit = case["r_lit"]
    if cls == "literal-changed":
        r_lit = r_lit + 0.1
    if cls == "out-of-range":
        which = int(case["tm"]) % 3
        (bs, r, m)[which][0] = 7.5 if which != 1 else 3.6
    if cls == "boundary-values":
        bs[0], r[0], m[0] = TWO_PI, np.pi, 0.0
    lrng = np.random.default_rng([tm, int(1e6 * case["r_lit"])])
    if cls == "single-value-range":
        r = [float(x) for x in lrng.choice([0.0, np.pi / 2, np.pi], len(r))]
        if len(r) >= 3:
            r[0], r[-1] = 0.0, float(np.pi)
        if tm % 2:
            r[len(r) // 2] = 1.0  # not one of the three allowed values, and neither the smallest nor the largest entry
    if cls == "gap-range":
        r = [float(x) for x in lrng.choice([0.0, 1.0, 1.4, 2.0], len(r))]
        bs = [float(x) for x in lrng.choice([0.0, 0.6, 1.0, 2.0, 2.5, 3.0], len(bs))]
        if len(r) >= 3:
            r[0], r[-1], bs[0], bs[-1] = 0.0, 2.0, 0.0, 3.0
            which = int(lrng.integers(3))
            if which == 0:
                r[int(lrng.integers(1, len(r) - 1))] = 0.5   # inside the gap, between the smallest and the largest entry
            elif which == 1:
                bs[int(lrng.integers(1, len(bs) - 1))] = 1.5
            # which == 2: every entry allowed
    if cls == "too-many-bins":
        extra = case["temporal_max"] - tm + 1
        bs, r, m = bs + [0.1] * extra, r + [0.1] * extra, m + [0.1] * extra
    prog = sf.TDMProgram(N=2)
    with prog.context(bs, r, m) as (p, q):
        if cls == "wrong-gate":
            ops.Dgate(r_lit) | q[1]
        else:
            ops.Sgate(r_lit, 0) | q[1]
        if cls == "wrong-modes":
            ops.BSgate(p[0]) | (q[0], q[1])
        elif cls == "phase-literal-changed":
            ops.BSgate(p[0], 0.3) | (q[1], q[0])
        else:
            ops.BSgate(p[0]) | (q[1], q[0])
        if cls == "extra-gate":
            ops.Rgate(0.2) | q[0]
        ops.Rgate(p[1]) | q[1]
        ops.MeasureHomodyne(p[2]) | q[0]
    src_arrays = [list(map(float, a)) for a in prog.tdm_params]
    try:
        compiled = prog.compile(device=device, **({"compiler": comp} if case["pass_compiler"] else {}))
    except (env["CircuitError"], ValueError) as e:
        rep.monitor("rejections")
        rep.observe("tdm1-rejected:%s:%s" % (cls, type(e).__name__))
        rep.case(["tdm1", cls, tm, comp], False)
        return
    rep.case(["tdm1", cls, tm, comp, rnd(bs, 4), rnd(r, 4)], True)
    rep.observe("tdm1-compiled:" + cls)
    if cls in ("wrong-concurrency", "wrong-spatial"):
        V("compile:" + comp, "limit-not-enforced:" + cls, "a program with 2 concurrent modes in 1 spatial mode was accepted for a device with %s" % (
            {k: v for k, v in spec["modes"].items()}))
        return
    rep.monitor("tdm1:conformance")
    exp = [("Sgate", (1,)), ("BSgate", (1, 0)), ("Rgate", (1,)), ("MeasureHomodyne", (0,))]
    got = [(type(c.op).__name__, tuple(x.ind for x in c.reg)) for c in compiled.circuit]
    if got != exp:
        V("compile:" + comp, "non-conforming:layout-mismatch", "compiled gate sequence %s, layout %s [%s]" % (got, exp, cls))
        return
    pe = env["par_evaluate"]
    c0 = compiled.circuit[0].op.p
    if abs(float(pe(c0[0])) - case["r_lit"]) > 1e-9 or abs(float(pe(c0[1]))) > 1e-9:
        V("compile:" + comp, "non-conforming:literal-changed", "Sgate%s, the layout fixes (%s, 0) [%s]" % ([float(pe(x)) for x in c0], case["r_lit"], cls))
    c1 = compiled.circuit[1].op.p
    if len(c1) > 1 and abs(float(pe(c1[1]))) > 1e-9:
        V("compile:" + comp, "non-conforming:literal-changed", "BSgate phase %s, the layout fixes 0 [%s]" % (float(pe(c1[1])), cls))
    arrays = [list(map(float, np.asarray(a, dtype=float).ravel())) for a in compiled.tdm_params]
    names = ["bs", "r", "m"]
    for nm, arr in zip(names, arrays):
        bad = [v for v in arr if not in_ranges(v, gp[nm])]
        if bad:
            V("compile:" + comp, "non-conforming:out-of-range", "{%s} takes values %s outside %s [%s]" % (nm, np.round(bad[:4], 6).tolist(), gp[nm], cls))
    if len(arrays[0]) > case["temporal_max"]:
        V("compile:" + comp, "non-conforming:too-many-time-bins", "%d time bins, the device allows %d" % (len(arrays[0]), case["temporal_max"]))
    rep.monitor("tdm1:unchanged")
    if arrays != src_arrays:
        V("compile:" + comp, "state-changed", "the %s compiler rewrote the parameter arrays of the program" % comp)


TDM_LINE = re.compile(r"^\s*([A-Za-z0-9_]+)\((.*)\)\s*\|\s*\[?([0-9, ]+)\]?\s*$")


def parse_tdm_layout(text):
    out = []
    for line in text.splitlines():
        m = TDM_LINE.match(line.strip())
        if not m or "array" in line:
            continue
        args = [a.strip() for a in m.group(2).split(",")] if m.group(2).strip() else []
        toks = [("name", a[1:-1]) if a.startswith("{") else ("lit", float(a)) for a in args]
        out.append((m.group(1), toks, tuple(int(x) for x in m.group(3).split(","))))
    return out


# ---------------------------------------------------------------------------------------------------

# ---------------------------------------------------------------------------------------------------------------------
# mode / measurement count limits (Program.assert_modes, TDMProgram.assert_modes)
# ---------------------------------------------------------------------------------------------------------------------

def gen_limits_case(rng):
    kind = str(rng.choice(["x-modes", "measurements"]))
    if kind == "x-modes":
        N = int(rng.integers(1, 4))
        how = str(rng.choice(["exact", "larger-register", "new-and-del", "smaller-register"]))
        return {"family": "limits", "kind": kind, "N": N, "how": how, "extra": int(rng.integers(1, 3))}
    if kind == "measurements":
        lim = {"pnr_max": int(rng.integers(0, 4)), "homodyne_max": int(rng.integers(0, 4)), "heterodyne_max": int(rng.integers(0, 3))}
        n = int(rng.integers(2, 7))
        meas = []
        free = list(range(n))
        rng.shuffle(free)
        while free and rng.random() < 0.85:
            t = str(rng.choice(["MeasureFock", "MeasureFock", "MeasureHomodyne", "MeasureX", "MeasureP", "MeasureHD", "MeasureHeterodyne",
                                "MeasureThreshold"]))
            k = int(rng.integers(1, min(3, len(free)) + 1)) if t in ("MeasureFock", "MeasureThreshold") else 1
            meas.append({"op": t, "m": [int(free.pop()) for _ in range(k)]})
        return {"family": "limits", "kind": kind, "limits": lim, "n": n, "meas": meas,
                "missing_key": bool(rng.random() < 0.1)}


def run_limits_case(case, rep, env):
    sf, ops = env["sf"], env["ops"]
    from strawberryfields.program_utils import CircuitError

    kind = case["kind"]
    rep.case(["limits", kind, {k: v for k, v in case.items() if k not in ("family", "kind")}], True)
    V = lambda k, what: rep.violation("compile:limits:" + kind, k, what, case)

    def outcome(f):
        try:
            return "accepted", f()
        except CircuitError as e:
            return "CircuitError", e
        except Exception as e:  # anything else is not a documented way of refusing a program
            return type(e).__name__, e

    if kind == "x-modes":
        N, how = case["N"], case["how"]
        reset_compilers(env)
        dev = sf.Device(make_spec(N, [0, [0, 1]]))
        nreg = 2 * N + (case["extra"] if how == "larger-register" else (-1 if how == "smaller-register" and N > 1 else 0))
        prog = sf.Program(nreg)
        with prog.context as q:
            if how == "new-and-del":
                # a subsystem that is created and deleted again still counts (the register has held 2N + 1 subsystems)
                (extra,) = ops.New(1)
                ops.Del | extra
            for i in range(N):
                if i + N < nreg:
                    ops.S2gate(0.5, 0.0) | (q[i], q[i + N])
            ops.MeasureFock() | tuple(q[i] for i in range(min(nreg, 2 * N)))
        res, val = outcome(lambda: prog.compile(device=dev, compiler="Xunitary"))
        rep.monitor("limits:mode-count")
        rep.observe("limits:x-modes:%s:%s" % (how, res))
        over = how in ("larger-register", "new-and-del")
        if over and res != "CircuitError":
            V("mode-limit-not-enforced", "a program whose register has held %d subsystems was %s for a %d-mode device (CircuitError documented)" % (
                len(prog.reg_refs), res, 2 * N))
        if how == "exact" and res != "accepted":
            V("rejected-at-the-limit", "a program with exactly %d modes was refused (%s: %s) by a %d-mode device" % (2 * N, res, str(val)[:100], 2 * N))
        return

    if kind == "measurements":
        lim = dict(case["limits"])
        if case["missing_key"]:
            lim.pop("heterodyne_max")
        dev = sf.Device({"target": "lim", "layout": None, "modes": lim, "compiler": ["gaussian"], "gate_parameters": None})
        prog = sf.Program(case["n"])
        with prog.context as q:
            ops.Sgate(0.3) | q[0]
            for mm in case["meas"]:
                op = getattr(ops, mm["op"])
                op = (op(0.3) if mm["op"] == "MeasureHomodyne" else op()) if isinstance(op, type) else op
                regs = tuple(q[i] for i in mm["m"])
                op | (regs if len(regs) > 1 else regs[0])
        cnt = {"pnr": 0, "homodyne": 0, "heterodyne": 0}
        for mm in case["meas"]:
            if mm["op"] == "MeasureFock":
                cnt["pnr"] += len(mm["m"])
            elif mm["op"] in ("MeasureHomodyne", "MeasureX", "MeasureP"):
                cnt["homodyne"] += 1
            elif mm["op"] in ("MeasureHD", "MeasureHeterodyne"):
                cnt["heterodyne"] += 1
        res, val = outcome(lambda: prog.compile(device=dev, compiler="gaussian"))
        rep.monitor("limits:measurement-count")
        if case["missing_key"]:
            rep.observe("limits:measurements:missing-key:%s" % res)
            if res == "accepted":
                V("incomplete-limits-accepted", "a device whose measurement limits lack 'heterodyne_max' was used without an error")
            return
        over = [k for k in cnt if cnt[k] > case["limits"][k + "_max"]]
        rep.observe("limits:measurements:%s:%s" % ("over" if over else "within", res))
        if over and res != "CircuitError":
            V("measurement-limit-not-enforced", "program with %s measurements was %s for limits %s (exceeded: %s)" % (cnt, res, case["limits"], over))
        if not over and res != "accepted":
            V("rejected-within-limits", "program with %s measurements was refused (%s: %s) although the limits are %s" % (
                cnt, res, str(val)[:100], case["limits"]))
        if not over and res == "accepted":
            got = [(type(c.op).__name__, [r.ind for r in c.reg]) for c in val.circuit if isinstance(c.op, ops.Measurement)]
            want = [(type(getattr(ops, mm["op"])).__name__ if not isinstance(getattr(ops, mm["op"]), type) else mm["op"], mm["m"]) for mm in case["meas"]]
            if sorted(map(str, got)) != sorted(map(str, want)):
                V("measurements-changed", "measurements of the compiled program %s differ from the source's %s" % (got, want))
        return



def finalize(res, tier):
    """Every compiler must have accepted something, otherwise nothing was decided about what it returns."""
    out = []
    ev = res["counters"]
    for comp in ("Xstrict", "Xunitary", "Xcov"):
        if not any(k.startswith("compiled:%s:" % comp) and v > 0 for k, v in ev.items()):
            out.append("compiler-accepted-nothing:" + comp)
    if not any(k.startswith("tdm-compiled:small-offsets") for k in ev):
        out.append("no-judged-loop-compensation")
    return out


def run_case(case, rep, env):
    if case["family"] == "x":
        run_x_case(case, rep, env)
    elif case["family"] == "tdm1":
        run_tdm1_case(case, rep, env)
    elif case["family"] == "limits":
        run_limits_case(case, rep, env)
    else:
        run_tdm_case(case, rep, env)


def plan(tier, seed, scale=1.0):
    n = int((120 if tier == "quick" else 5000) * scale)
    return [{"n": n, "timeout": 6000} for _ in range(16)]


def run_shard(shard, rep):
    env = load()
    rng = np.random.default_rng([shard["seed"], shard["id"], 12])
    for i in range(shard["n"]):
        case = gen_tdm_case(rng) if (i % 10 == 3) else (gen_tdm1_case(rng) if i % 10 == 6 else (
            gen_limits_case(rng) if i % 10 == 9 else gen_x_case(rng)))
        try:
            run_case(case, rep, env)
            if i % 41 == 7 and len(rep.samples) < 4:
                rep.samples.append(case)
        except Exception as e:
            import traceback

            tb = traceback.extract_tb(e.__traceback__)
            where = "%s:%s" % (tb[-1].filename.split("/")[-1], tb[-1].name) if tb else "?"
            rep.violation("compile:" + case.get("compiler", "borealis"), "unexpected-exception:%s" % type(e).__name__,
                          "%s: %s at %s [source %s]" % (type(e).__name__, str(e)[:160], where, case.get("kind", case.get("cls"))), case)


def replay(case, rep):
    run_case(case, rep, load())
