"""C05 — operations act only on their target modes.

Invariant at a hook (CommandTap, previous snapshot in hand): for every applied gate / channel the reduced state of
all non-target modes must be unchanged (gaussian/bosonic: blocks of (mu, V), every bosonic component and the
weights, 1e-10; fock: spectator reduced density matrix, exactly for passive operations without population at the
cutoff edge, otherwise within a budget measured from the edge population and the trace change); for every
preparation the target must be in the documented state, uncorrelated with the rest, and the rest unchanged.
"""
import numpy as np

from ..common import setup_paths, rnd, enc
from .. import refgauss as rg, gen
from ..simobs import LocalityObserver

PROPERTY = "C05"
RULE = ("seeded entangled / displaced / mixed priors on 2-5 modes (fock: 2-3) followed by 4-12 probe commands drawn from "
        "every operation class of the backend (gates on every ordered position, dagger forms, loss, thermal loss, "
        "preparations incl. Thermal / Fock / Ket and Gaussian(decomp=False) on permuted target lists, PassiveChannel, MSgate, "
        "photon-number measurements on ordered mode lists (fock) and homodyne / heterodyne measurements (gaussian, bosonic), "
        "sampled and post-selected); "
        "every applied command is a probe with the current state as prior. non-trivial = before the probe the target is "
        "correlated with the spectators (max cross-covariance > 1e-3) and the spectators are not in vacuum; the count is of "
        "distinct programs containing >= 1 such probe; distinct = rounded program + backend set.")
ASSUMPTIONS = [
    "spectator states are read through backend.state() only",
    "Fock budget for non-passive operations: 20*sqrt(edge population of the targets + |trace change|) + 1e-9",
    "documented prepared states come from RefGauss / the Ket handed in; The Walrus converts Gaussian references to Fock",
]
REQUIRED_MONITORS = ["spectators:gaussian", "spectators:bosonic", "spectators:fock-pure", "spectators:fock-mixed",
                     "prep-target:gaussian", "prep-target:bosonic", "prep-target:fock-pure", "special-probes", "spectators:fock(ket representation)", "delete:gaussian", "delete:bosonic", "delete:fock-pure",
                     "measurement:gaussian", "measurement:bosonic", "measurement:fock-pure", "measurement:fock-mixed"]


def load():
    setup_paths()
    from .. import simrun, sfutil

    return simrun, sfutil


def random_ket(rng, k, D, maxn=2):
    """Random normalised k-mode ket with support on levels <= maxn."""
    v = np.zeros((D,) * k, dtype=complex)
    sl = tuple(slice(0, maxn + 1) for _ in range(k))
    v[sl] = rng.normal(size=(maxn + 1,) * k) + 1j * rng.normal(size=(maxn + 1,) * k)
    return v / np.linalg.norm(v)


def add_special(rng, spec, backend, D):
    """Append special probes for one backend."""
    n = spec["n"]
    cmds = spec["cmds"]
    if backend == "fock":
        if n >= 2 and rng.random() < 0.7:
            k = int(rng.integers(1, min(n, 2) + 1))
            modes = [int(x) for x in rng.choice(n, k, replace=False)]
            cmds.append({"op": "Ket", "p": [enc(random_ket(rng, k, D))], "m": modes, "dag": False})
        cmds.append({"op": "Fock", "p": [int(rng.integers(0, 3))], "m": [int(rng.integers(n))], "dag": False})
        if rng.random() < 0.5:
            k = 1
            modes = [int(rng.integers(n))]
            ket = random_ket(rng, 1, D)
            dm = 0.6 * np.outer(ket, ket.conj()) + 0.4 * np.diag([1.0] + [0.0] * (D - 1))
            cmds.append({"op": "DensityMatrix", "p": [enc(dm)], "m": modes, "dag": False})
    elif backend in ("gaussian", "bosonic"):
        k = int(rng.integers(1, n + 1))
        modes = [int(x) for x in rng.choice(n, k, replace=False)]
        S = gen.random_symplectic(rng, k, True, rng.uniform(-0.4, 0.4, k))
        nu = 1 + rng.uniform(0, 0.5, k)
        V = S @ np.diag(np.concatenate([nu, nu])) @ S.T
        cmds.append({"op": "Gaussian", "p": [enc(V), enc(rng.uniform(-0.5, 0.5, 2 * k))], "m": modes, "dag": False,
                     "kw": {"decomp": False}})
        if backend == "gaussian" and n >= 2:
            k = int(rng.integers(1, n + 1))
            modes = [int(x) for x in rng.choice(n, k, replace=False)]
            T = gen.haar(rng, k) @ np.diag(rng.uniform(0.3, 1.0, k)) @ gen.haar(rng, k)
            cmds.append({"op": "PassiveChannel", "p": [enc(T)], "m": modes, "dag": False})
        if backend == "bosonic":
            cmds.append({"op": "MSgate", "p": [float(rng.uniform(0.1, 0.5)), float(rng.uniform(0, 3)), 1.2, 0.95],
                         "m": [int(rng.integers(n))], "dag": False})
    # measurement probes: the other modes may only change by the conditional update of the reported outcome
    if rng.random() < 0.6:
        if backend == "fock":
            k = int(rng.integers(1, n))
            modes = [int(x) for x in rng.choice(n, k, replace=False)]
            c = {"op": "MeasureFock", "p": [], "m": modes, "dag": False}
            if rng.random() < 0.4:
                c["kw"] = {"select": [int(x) for x in rng.integers(0, 2, k)]}
        elif rng.random() < 0.7:
            c = {"op": "MeasureHomodyne", "p": [gen.angle(rng)], "m": [int(rng.integers(n))], "dag": False}
            if rng.random() < 0.4:
                c["kw"] = {"select": float(rng.normal(0, 0.8))}
        else:
            c = {"op": "MeasureHeterodyne", "p": [], "m": [int(rng.integers(n))], "dag": False}
            if rng.random() < 0.4:
                c["kw"] = {"select": enc(complex(rng.normal(0, 0.6), rng.normal(0, 0.6)))}
        cmds.insert(int(rng.integers(len(cmds) // 2, len(cmds) + 1)), c)
    # something afterwards so that the special op's own effect on later probes is exercised too
    a = int(rng.integers(n))
    cmds.append({"op": "Rgate", "p": [float(rng.uniform(0, 6))], "m": [a], "dag": False})
    if n >= 2 and rng.random() < 0.5:
        k = int(rng.integers(1, n))
        cmds.append({"op": "Del", "m": sorted(int(x) for x in rng.choice(n, k, replace=False))})
    return spec


def gen_case(rng, simrun, backend):
    fock = backend == "fock"
    n = int(rng.integers(2, 4)) if fock else int(rng.integers(2, 6))
    if fock and rng.random() < 0.3:
        return gen_wide_fock_case(rng, simrun)
    allow = {"fock": simrun.FOCK_OK - {"Interferometer", "GaussianTransform", "Gaussian"},
             "gaussian": simrun.GAUSSIAN_OK - {"Gaussian"},
             "bosonic": simrun.BOSONIC_OK - {"Gaussian"}}[backend]
    keep_pure = fock and rng.random() < 0.5
    if keep_pure:
        allow = allow - set(simrun.PREPS) - {"LossChannel"}
    spec = simrun.gen_program(rng, gen, n=n, small=fock, allow=allow, length=int(rng.integers(4, 13)), prefix=not keep_pure)
    if keep_pure:
        spec["cmds"] = simrun.pure_prefix(rng, n) + spec["cmds"]
    D = 9 if n <= 2 else 7
    spec = add_special(rng, spec, backend, D)
    return {"spec": spec, "hbar": float(rng.choice([2.0, 2.0, 0.7])), "backend": backend, "cutoff": D}


def gen_wide_fock_case(rng, simrun):
    """Fock registers of 4-5 modes at a low cutoff (weak states): gates-only entangling prefix, so that the register is still a
    ket when the probes (preparations on every position, gates, loss, a measurement) arrive - three or more spectators."""
    n = int(rng.integers(4, 6))
    D = 5 if n == 4 else 4
    cmds = []
    for m in range(n):
        cmds.append({"op": "Dgate", "p": [float(rng.uniform(0.05, 0.2)), float(rng.uniform(0, 6.28))], "m": [m], "dag": False})
        if rng.random() < 0.5:
            cmds.append({"op": "Sgate", "p": [float(rng.uniform(-0.1, 0.1)), float(rng.uniform(0, 6.28))], "m": [m], "dag": False})
    for _ in range(n):
        a, b = (int(x) for x in rng.choice(n, 2, replace=False))
        cmds.append({"op": "BSgate", "p": [float(rng.uniform(0.3, 1.2)), float(rng.uniform(0, 6.28))], "m": [a, b], "dag": False})
    for _ in range(int(rng.integers(2, 6))):
        k = str(rng.choice(["Fock", "Coherent", "Vacuum", "Ket", "Rgate", "BSgate", "LossChannel", "Squeezed"]))
        m = int(rng.integers(n))
        if k == "Fock":
            cmds.append({"op": k, "p": [int(rng.integers(0, 2))], "m": [m], "dag": False})
        elif k == "Coherent":
            cmds.append({"op": k, "p": [float(rng.uniform(0.05, 0.2)), float(rng.uniform(0, 6.28))], "m": [m], "dag": False})
        elif k == "Squeezed":
            cmds.append({"op": k, "p": [float(rng.uniform(-0.1, 0.1)), float(rng.uniform(0, 6.28))], "m": [m], "dag": False})
        elif k == "Vacuum":
            cmds.append({"op": k, "p": [], "m": [m], "dag": False})
        elif k == "Ket":
            cmds.append({"op": k, "p": [enc(random_ket(rng, 1, D, 1))], "m": [m], "dag": False})
        elif k == "Rgate":
            cmds.append({"op": k, "p": [float(rng.uniform(-3, 3))], "m": [m], "dag": False})
        elif k == "LossChannel":
            cmds.append({"op": k, "p": [float(rng.uniform(0.4, 1.0))], "m": [m], "dag": False})
        else:
            a, b = (int(x) for x in rng.choice(n, 2, replace=False))
            cmds.append({"op": "BSgate", "p": [float(rng.uniform(0.3, 1.2)), float(rng.uniform(0, 6.28))], "m": [a, b], "dag": False})
    return {"spec": {"n": n, "cmds": cmds}, "hbar": 2.0, "backend": "fock", "cutoff": D, "wide": True}


def run_case(case, rep, env):
    simrun, sfutil, runner = env
    import strawberryfields as sf

    spec, hbar, backend = case["spec"], case["hbar"], case["backend"]
    sf.hbar = hbar
    try:
        confs = [{"backend": backend}]
        if backend == "fock":
            confs = [{"backend": "fock", "cutoff_dim": case["cutoff"], "pure": True},
                     {"backend": "fock", "cutoff_dim": case["cutoff"], "pure": False}]
            if case.get("wide"):
                rep.observe("fock-register-of-%d-modes" % spec["n"])
                confs = confs[:1] if spec["n"] == 5 else confs  # (5 modes mixed at cutoff 4: 4^10 entries per snapshot, pure only)
        case.pop("_nt", None)
        for conf in confs:
            prog = sfutil.build_program(spec["n"], spec["cmds"])
            obs = LocalityObserver(rep, case, conf, hbar)
            runner.observers = [obs]
            res, eng = runner.run(prog, conf["backend"], {k: v for k, v in conf.items() if k != "backend"})
            if isinstance(res, Exception):
                nm = type(res).__name__
                if nm in ("NotApplicableError", "NotImplementedError", "CircuitError") or \
                        (nm == "ZeroDivisionError" and "zero probability" in str(res)):
                    # (post-selection on an outcome the state cannot give is refused by the Fock backend)
                    rep.observe("rejected:%s:%s" % (obs.lab(), nm))
                else:
                    rep.violation(backend + ".run", "exception:" + nm, "%s raised %s: %s" % (obs.lab(), nm, str(res)[:200]),
                                  case, {"conf": conf})
        if any(c["op"] in ("Ket", "DensityMatrix", "Fock", "PassiveChannel", "MSgate") or c.get("kw", {}).get("decomp") is False
               for c in spec["cmds"]):
            rep.monitor("special-probes")
        nt = case.pop("_nt", 0)
        rep.case([rnd(spec, 6), hbar, backend], nt > 0,
                 sample={"backend": backend, "hbar": hbar, "spec": spec} if rep.evaluations % 83 == 3 else None)
    finally:
        sf.hbar = 2


def plan(tier, seed, scale=1.0):
    if tier == "quick":
        ng, nf = int(40 * scale), int(8 * scale)
    else:
        ng, nf = int(800 * scale), int(100 * scale)
    return [{"ng": ng, "nf": nf, "timeout": 3000} for _ in range(16)]


def run_shard(shard, rep):
    simrun, sfutil = load()
    runner = simrun.SimRunner()
    env = (simrun, sfutil, runner)
    rng = np.random.default_rng([shard["seed"], shard["id"], 5])
    for i in range(shard["ng"]):
        case = gen_case(rng, simrun, "gaussian" if i % 2 == 0 else "bosonic")
        try:
            run_case(case, rep, env)
        except Exception as e:
            rep.error("run_case", e)
    for _ in range(shard["nf"]):
        case = gen_case(rng, simrun, "fock")
        try:
            run_case(case, rep, env)
        except Exception as e:
            rep.error("run_case", e)


def replay(case, rep):
    simrun, sfutil = load()
    run_case(case, rep, (simrun, sfutil, simrun.SimRunner()))
