"""C07 — every simulated state is physical and gates conserve what they must.

Invariants asserted at the CommandTap hook after every applied command, with the previous snapshot in hand, on
states read through backend.state(): Gaussian covariance symmetric and V + i*Omega >= 0; Fock density matrix
Hermitian, positive semidefinite, trace <= 1; bosonic weights sum to one; unitary gates preserve purity, passive
gates conserve total mean photon number, loss never increases it, the trace never increases and is lost only
through truncation (bounded by the reference tail mass of a RefGauss shadow).
"""
import numpy as np

from ..common import setup_paths, rnd
from .. import refgauss as rg, gen
from ..simobs import PhysicalityObserver

PROPERTY = "C07"
RULE = ("seeded programs of 1-5 modes (fock: 1-3) with up to 30 commands over all gates, channels and preparations of each "
        "backend, higher energies on the Gaussian backends, boundary transmissivities (0, 1, 1e-12), subsystems created (New) "
        "and deleted (Del) in the middle of 30 % of the programs; the invariants are "
        "evaluated after every applied command. non-trivial = program in which the invariants were evaluated on >= 1 "
        "non-vacuum state; distinct = rounded program + backend.")
ASSUMPTIONS = [
    "invariants are evaluated only between commands, on state exposed by backend.state()",
    "trace-loss budget: 500 * (sum over steps of the reference tail mass beyond the cutoff) + 1e-6; "
    "Fock conservation tolerances 20*sqrt(tau*)+1e-8, evaluated only while tau* <= 1e-6",
    "eigenvalue tolerances -1e-9 (relative to the covariance scale)",
]
REQUIRED_MONITORS = ["physical:gaussian", "physical:bosonic", "physical:fock-pure", "physical:fock-mixed",
                     "purity:gaussian", "purity:fock-pure", "photon-number:gaussian", "photon-number:fock-mixed",
                     "loss-monotone:gaussian", "trace:fock-pure", "trace:fock-mixed", "physical:fock(ket representation)", "physical-after-measurement",
                     "physical-after-New/Del"]


def load():
    setup_paths()
    from .. import simrun, sfutil

    return simrun, sfutil


def gen_case(rng, simrun, backend):
    fock = backend == "fock"
    n = int(rng.integers(1, 4)) if fock else int(rng.integers(1, 6))
    allow = {"fock": simrun.FOCK_OK, "gaussian": simrun.GAUSSIAN_OK, "bosonic": simrun.BOSONIC_OK}[backend]
    keep_pure = fock and rng.random() < 0.5
    if keep_pure:
        allow = allow - set(simrun.PREPS) - {"LossChannel", "Gaussian"}
    spec = simrun.gen_program(rng, gen, n=n, small=fock, allow=allow,
                              length=int(rng.integers(4, 16 if fock else 31)), prefix=not keep_pure)
    if keep_pure:
        spec["cmds"] = simrun.pure_prefix(rng, n) + spec["cmds"]
    # measurements (sampled and post-selected): the conditional states must be physical as well
    from ..common import enc
    if rng.random() < 0.6:
        measured = set()
        for _ in range(int(rng.integers(1, 3))):
            m = int(rng.integers(n))
            if m in measured:
                continue  # a second post-selection on a mode just reset to vacuum has probability zero
            measured.add(m)
            kinds = ["homodyne", "homodyne-select"]
            if backend in ("gaussian", "bosonic"):
                kinds += ["heterodyne", "heterodyne-select"]
            else:
                kinds += ["fock", "fock-select"]
            k = str(rng.choice(kinds))
            if k.startswith("homodyne"):
                c = {"op": "MeasureHomodyne", "p": [gen.angle(rng)], "m": [m], "dag": False}
                if k.endswith("select"):
                    c["kw"] = {"select": float(rng.normal(0, 0.5 if fock else 1.0))}
            elif k.startswith("heterodyne"):
                c = {"op": "MeasureHeterodyne", "p": [], "m": [m], "dag": False}
                if k.endswith("select"):
                    c["kw"] = {"select": enc(complex(rng.normal(0, 0.7), rng.normal(0, 0.7)))}
            else:
                c = {"op": "MeasureFock", "p": [], "m": [m], "dag": False}
                if k.endswith("select"):
                    c["kw"] = {"select": int(rng.integers(0, 2))}
            pos = int(rng.integers(len(spec["cmds"]) // 2, len(spec["cmds"]) + 1))
            spec["cmds"].insert(pos, c)
    if backend in ("fock", "bosonic") and rng.random() < 0.4:
        # non-Gaussian preparations (number, cat, GKP states with complex amplitudes; kets and density matrices on fock) in the
        # middle of a program, i.e. also after the register has become mixed
        kinds = ["Catstate", "GKP"] + (["Fock", "Ket", "DensityMatrix"] if fock else [])
        no_extension = False
        for _ in range(int(rng.integers(1, 3))):
            k = str(rng.choice(kinds))
            m = int(rng.integers(n))
            D = 10 if n <= 2 else 7
            if k == "Catstate":
                c = {"op": k, "p": [float(rng.uniform(0.3, 0.9)), float(rng.choice([0.0, float(rng.uniform(0, 6.28))])), float(rng.choice([0, 1, 0.5, float(rng.uniform(0, 2))]))], "m": [m], "dag": False}
            elif k == "GKP":
                c = {"op": k, "p": [], "kw": {"state": [float(rng.choice([np.pi / 2, np.pi, float(rng.uniform(0, np.pi))])), float(rng.choice([0.0, np.pi / 2, float(rng.uniform(0, 6.28))]))],
                                              "epsilon": float(rng.uniform(0.5, 0.65))}, "m": [m], "dag": False}
            elif k == "Fock":
                c = {"op": k, "p": [int(rng.integers(0, 3))], "m": [m], "dag": False}
            else:
                v = rng.normal(size=4) + 1j * rng.normal(size=4)
                ket = np.zeros(D, dtype=complex)
                ket[:4] = v / np.linalg.norm(v)
                no_extension = True  # (the array length fixes the cutoff, which the New / Del extension would change)
                if k == "Ket":
                    c = {"op": k, "p": [enc(ket)], "m": [m], "dag": False}
                else:
                    dm = 0.7 * np.outer(ket, ket.conj()) + 0.3 * np.diag([1.0] + [0.0] * (D - 1))
                    c = {"op": k, "p": [enc(dm)], "m": [m], "dag": False}
            if backend == "bosonic":
                # (accepted by the bosonic backend only as the first operation on its mode, with no other preparation there)
                spec["cmds"] = [c] + [x for x in spec["cmds"] if not (x["op"] in simrun.PREPS + ["Gaussian", "Catstate", "GKP"] and m in x["m"])]
            else:
                spec["cmds"].insert(int(rng.integers(len(spec["cmds"]) // 3, len(spec["cmds"]) + 1)), c)
    if rng.random() < 0.3 and (not fock or n <= 2) and not locals().get("no_extension"):
        # subsystems created / deleted in the middle of the program, on entangled states (New on bosonic: recorded
        # finding under C08, not exercised here)
        spec = simrun.extend_with_new_del(rng, gen, spec, allow | {"New", "Del"}, fock, 3 if fock else 6,
                                          with_new=backend != "bosonic" and rng.random() < 0.8, with_del=rng.random() < 0.6)
        if fock:
            n = 3
    return {"spec": spec, "hbar": float(rng.choice([2.0, 2.0, 1.0, 0.5])), "backend": backend,
            "cutoff": 10 if n <= 2 else 7}


def run_case(case, rep, env):
    simrun, sfutil, runner = env
    import strawberryfields as sf

    spec, hbar, backend = case["spec"], case["hbar"], case["backend"]
    for c in spec["cmds"]:
        if c["op"] in ("Catstate", "GKP", "Fock", "Ket", "DensityMatrix"):
            rep.observe("non-gaussian-preparation:%s@%s" % (c["op"], backend))
    sf.hbar = hbar
    try:
        confs = [{"backend": backend}]
        if backend == "fock":
            confs = [{"backend": "fock", "cutoff_dim": case["cutoff"], "pure": True},
                     {"backend": "fock", "cutoff_dim": case["cutoff"], "pure": False}]
        case.pop("_nt", None)
        for conf in confs:
            prog = sfutil.build_program(spec["n"], spec["cmds"])
            obs = PhysicalityObserver(rep, case, conf, hbar, spec["n"], simrun)
            runner.observers = [obs]
            res, eng = runner.run(prog, conf["backend"], {k: v for k, v in conf.items() if k != "backend"})
            if isinstance(res, Exception):
                nm = type(res).__name__
                if nm in ("NotApplicableError", "NotImplementedError", "CircuitError") or \
                        (nm == "ZeroDivisionError" and "zero probability" in str(res)):
                    rep.observe("rejected:%s:%s" % (obs.lab(), nm))
                else:
                    rep.violation(backend + ".run", "exception:" + nm, "%s raised %s: %s" % (obs.lab(), nm, str(res)[:200]),
                                  case, {"conf": conf})
                continue
            # the returned Result.state must be physical as well
            snap = simrun.Snap(eng.backend)
            obs.physical(snap, backend + ".state", {"conf": conf, "where": "Result.state"})
        nt = case.pop("_nt", 0)
        rep.case([rnd(spec, 6), hbar, backend], nt > 0,
                 sample={"backend": backend, "hbar": hbar, "spec": spec} if rep.evaluations % 83 == 3 else None)
    finally:
        sf.hbar = 2


def plan(tier, seed, scale=1.0):
    if tier == "quick":
        ng, nf = int(36 * scale), int(8 * scale)
    else:
        ng, nf = int(700 * scale), int(90 * scale)
    return [{"ng": ng, "nf": nf, "timeout": 3000} for _ in range(16)]


def run_shard(shard, rep):
    simrun, sfutil = load()
    runner = simrun.SimRunner()
    env = (simrun, sfutil, runner)
    rng = np.random.default_rng([shard["seed"], shard["id"], 7])
    for i in range(shard["ng"]):
        case = gen_case(rng, simrun, "gaussian" if i % 2 == 0 else "bosonic")
        try:
            run_case(case, rep, env)
        except Exception as e:
            rep.error("run_case", e)
    for _ in range(shard["nf"]):
        case = gen_case(rng, simrun, "fock")
        try:
            run_case(case, rep, env)
        except Exception as e:
            rep.error("run_case", e)


def replay(case, rep):
    simrun, sfutil = load()
    run_case(case, rep, (simrun, sfutil, simrun.SimRunner()))
