"""C11 — Gaussian-merging compilers return a program with the same net action.

Monitor: every return of Program.compile(compiler in {gaussian_unitary, passive, gaussian_merge}) is checked
against the source: RefGauss net (S, d) / (X, Y) of the source circuit (dagger honoured, modes as written) vs the
compiled list interpreted by the reference on the *listed* register order, both embedded into the full register;
for gaussian_merge hybrid circuits, source and compiled programs are executed on the real fock backend from a
random low-photon Ket and the final states compared, and every maximal Gaussian block is covered by the same
net-action comparison when the circuit is purely Gaussian.  Any exception other than CircuitError is a violation.
"""
import numpy as np

from ..common import setup_paths, rnd, enc, dec as jdec
from .. import refgauss as rg, gen
from ..instrument import MergeProgress, NoProgress

PROPERTY = "C11"
RULE = ("seeded circuits over the accepted primitives and decomposables, with and without dagger, on subsets of registers of "
        "size 2-12 incl. non-contiguous sets, indices >= 9 and sets whose hash order differs from numeric order ({1, 8}, "
        "{3, 9, 16}); 1x1, 2x2 and larger Interferometer / GaussianTransform / PassiveChannel blocks on permuted modes; random "
        "hybrid topologies with Vgate / Kgate / CKgate for gaussian_merge. non-trivial = the source has >= 2 non-commuting "
        "operations on overlapping modes; distinct = rounded circuit + compiler.")
ASSUMPTIONS = [
    "RefGauss net action of the source is the oracle; tolerance 1e-8",
    "hybrid circuits are compared by execution on the real fock backend (cutoff 7-8, small parameters, tolerance 3e-2 on "
    "density-matrix entries for truncation differences between merged and unmerged Gaussian blocks)",
]
REQUIRED_MONITORS = ["gaussian_unitary:net-action", "passive:net-action", "gaussian_merge:gaussian-net-action",
                     "gaussian_merge:fock-execution", "index-sets:hash-order"]

GU_ONE = ["Dgate", "Sgate", "Rgate", "Xgate", "Zgate", "Pgate", "Fouriergate"]
GU_TWO = ["BSgate", "S2gate", "MZgate", "sMZgate", "CXgate", "CZgate"]
PA_ONE = ["Rgate", "LossChannel"]
PA_TWO = ["BSgate", "MZgate", "sMZgate"]
NARGS = {"Dgate": 2, "Sgate": 2, "Rgate": 1, "Xgate": 1, "Zgate": 1, "Pgate": 1, "Fouriergate": 0, "BSgate": 2, "S2gate": 2,
         "MZgate": 2, "sMZgate": 2, "CXgate": 1, "CZgate": 1, "LossChannel": 1, "Kgate": 1, "Vgate": 1, "CKgate": 1}
GATES = set(GU_ONE + GU_TWO + ["Kgate", "Vgate", "CKgate"])
HASHY = [[1, 8], [8, 1, 3], [16, 3, 9], [0, 8], [9, 2, 10], [5, 11], [2, 1, 0], [0, 2, 4], [3, 4], [0, 1, 2, 3], [7, 15, 8]]


def load():
    setup_paths()
    import strawberryfields as sf
    from strawberryfields import ops
    import strawberryfields.program_utils as pu
    from .. import sfutil, simrun

    return {"sf": sf, "ops": ops, "pu": pu, "sfutil": sfutil, "simrun": simrun}


def val(rng, small=False):
    if small:
        return float(rng.uniform(-0.15, 0.15))
    return float(rng.choice([0.0, np.pi / 2, rng.uniform(-1.2, 1.2), rng.uniform(-1.2, 1.2)]))


def gen_case(rng):
    comp = str(rng.choice(["gaussian_unitary", "gaussian_unitary", "passive", "gaussian_merge", "gaussian_merge"]))
    if comp == "gaussian_merge" and rng.random() < 0.6:
        # hybrid, small, for fock execution
        n = int(rng.integers(2, 4))
        used = list(range(n))
        L = int(rng.integers(3, 10)) if rng.random() < 0.8 else int(rng.integers(10, 16))
        cmds = []
        for _ in range(L):
            r = rng.random()
            if n == 3 and r < 0.08:
                # a three-mode Gaussian operation: fan-in of three unrelated predecessors in the merge DAG
                cmds.append({"op": "Interferometer", "p": [enc(gen.haar(rng, 3))], "m": [int(x) for x in rng.permutation(3)], "dag": False})
            elif r < 0.3:
                nm = str(rng.choice(["Kgate", "Vgate"]))
                cmds.append({"op": nm, "p": [float(rng.uniform(0.3, 1.0)) * (0.15 if nm == "Vgate" else 1)], "m": [int(rng.integers(n))],
                             "dag": bool(rng.random() < 0.2)})
            elif r < 0.4:
                a, b = (int(x) for x in rng.choice(n, 2, replace=False))
                cmds.append({"op": "CKgate", "p": [float(rng.uniform(0.3, 1.0))], "m": [a, b], "dag": False})
            elif r < 0.7:
                nm = str(rng.choice(["Dgate", "Sgate", "Rgate", "Xgate", "Pgate"]))
                p = [val(rng, True) for _ in range(NARGS[nm])]
                if nm == "Rgate":
                    p = [float(rng.uniform(-3, 3))]
                if len(p) > 1:
                    p[1] = float(rng.uniform(0, 6.28))
                cmds.append({"op": nm, "p": p, "m": [int(rng.integers(n))], "dag": bool(rng.random() < 0.25)})
            else:
                nm = str(rng.choice(["BSgate", "S2gate", "CZgate"]))  # (MZgate is applied natively on fock: recorded Gate.apply finding)
                a, b = (int(x) for x in rng.choice(n, 2, replace=False))
                p = [val(rng, True), float(rng.uniform(0, 6.28))][: NARGS[nm]]
                if nm in ("BSgate", "MZgate"):
                    p[0] = float(rng.uniform(-1.5, 1.5))
                cmds.append({"op": nm, "p": p, "m": [a, b], "dag": bool(rng.random() < 0.25)})
        if n == 3 and rng.random() < 0.15:
            # fan-in motif: a two-mode non-Gaussian gate, one-mode Gaussian gates on two different modes, and a three-mode
            # Gaussian operation that has all three as direct predecessors
            a, b, c = (int(x) for x in rng.permutation(3))
            one = lambda m: {"op": (nm_ := str(rng.choice(["Dgate", "Dgate", "Sgate", "Rgate"]))),
                             "p": [float(rng.uniform(0.05, 0.15))] + ([float(rng.uniform(0, 6.28))] if nm_ != "Rgate" else []),
                             "m": [m], "dag": False}
            motif = [{"op": "CKgate", "p": [float(rng.uniform(0.3, 1.0))], "m": [a, b], "dag": False}, one(b), one(c),
                     {"op": "Interferometer", "p": [enc(gen.haar(rng, 3))], "m": [int(x) for x in rng.permutation(3)], "dag": False}]
            at = int(rng.integers(0, len(cmds) + 1))
            cmds[at:at] = motif
        ket = np.zeros((8 if n == 2 else 7,) * n, dtype=complex)
        sl = tuple(slice(0, 3 if n == 2 else 2) for _ in range(n))
        ket[sl] = rng.normal(size=ket[sl].shape) + 1j * rng.normal(size=ket[sl].shape)
        ket /= np.linalg.norm(ket)
        return {"compiler": comp, "n": n, "cmds": cmds, "hybrid": True, "ket": enc(ket)}
    # register and used subset
    if rng.random() < 0.4:
        used = list(HASHY[int(rng.integers(len(HASHY)))])
        n = max(used) + 1 + int(rng.integers(0, 2))
    else:
        n = int(rng.integers(2, 13))
        k = int(rng.integers(1, min(n, 5) + 1))
        used = [int(x) for x in rng.choice(n, k, replace=False)]
    one, two = (PA_ONE, PA_TWO) if comp == "passive" else (GU_ONE, GU_TWO)
    L = int(rng.integers(2, 10))
    cmds = []
    for _ in range(L):
        r = rng.random()
        if len(used) >= 2 and r < 0.4:
            nm = str(rng.choice(two))
            a, b = (int(x) for x in rng.choice(used, 2, replace=False))
            cmds.append({"op": nm, "p": [val(rng) for _ in range(NARGS[nm])], "m": [a, b],
                         "dag": bool(rng.random() < 0.3 and NARGS[nm] > 0)})
        elif r < 0.8:
            nm = str(rng.choice(one))
            p = [val(rng) for _ in range(NARGS[nm])]
            if nm == "LossChannel":
                p = [gen.transmissivity(rng)]
            cmds.append({"op": nm, "p": p, "m": [int(rng.choice(used))], "dag": bool(nm in GATES and NARGS[nm] > 0 and rng.random() < 0.3)})
        else:
            k = int(rng.integers(1, min(len(used), 4) + 1))
            modes = [int(x) for x in rng.choice(used, k, replace=False)]
            if comp == "passive":
                if rng.random() < 0.5:
                    cmds.append({"op": "Interferometer", "p": [enc(gen.haar(rng, k))], "m": modes, "dag": False})
                else:
                    T = gen.haar(rng, k) @ np.diag(rng.uniform(0.2, 1.0, k)) @ gen.haar(rng, k)
                    cmds.append({"op": "PassiveChannel", "p": [enc(T)], "m": modes, "dag": False})
            else:
                if rng.random() < 0.5:
                    cmds.append({"op": "Interferometer", "p": [enc(gen.haar(rng, k))], "m": modes, "dag": False})
                else:
                    cmds.append({"op": "GaussianTransform", "p": [enc(gen.random_symplectic(rng, k, True, rng.uniform(-0.7, 0.7, k)))],
                                 "m": modes, "dag": False})
    return {"compiler": comp, "n": n, "cmds": cmds, "hybrid": False}


def nontrivial(cmds):
    for i in range(len(cmds)):
        for j in range(i + 1, len(cmds)):
            if set(cmds[i]["m"]) & set(cmds[j]["m"]) and cmds[i]["op"] != cmds[j]["op"]:
                return True
    return False


def run_case(case, rep, env):
    sf, sfutil, pu = env["sf"], env["sfutil"], env["pu"]
    comp, n = case["compiler"], case["n"]
    cmds = [dict(c, p=[jdec(x) for x in c["p"]]) for c in case["cmds"]]
    V = lambda kind, what, detail=None: rep.violation(comp + ".compile", kind, what, case, detail)
    prog = sfutil.build_program(n, case["cmds"])
    used = sorted({m for c in cmds for m in c["m"]})
    hashy = list(set(used)) != sorted(used)
    rep.case([rnd(case["cmds"], 5), comp, n], nontrivial(cmds),
             sample={k: v for k, v in case.items() if k != "ket"} if rep.evaluations % 139 == 7 else None)
    rep.seen("index-set-shapes", "%s%s" % (tuple(used), ":hash-order" if hashy else ""))
    if hashy:
        rep.monitor("index-sets:hash-order")
    anydag = any(c.get("dag") for c in cmds)
    try:
        with MergeProgress() as mp:
            compiled = prog.compile(compiler=comp)
        if comp == "gaussian_merge":
            rep.monitor("gaussian_merge:termination")
            rep.observe("gaussian_merge.rewrite-steps<=%d" % (4 * ((mp.max_steps + 3) // 4)))
    except NoProgress as e:
        rep.monitor("gaussian_merge:termination")
        V("no-progress", "GaussianMerge.compile's rewrite loop never ends: %s" % str(e)[:300])
        return
    except pu.CircuitError as e:
        rep.observe("rejected:%s:CircuitError" % comp)
        return
    except Exception as e:
        V("exception:" + type(e).__name__, "compiling a valid source for '%s' raised %s: %s" % (comp, type(e).__name__, str(e)[:160]))
        return
    src = [(c["op"], c["p"], c["m"], c.get("dag", False)) for c in cmds]
    out = [sfutil.cmd_tuple(c) for c in compiled.circuit]
    tag = ""
    if anydag:
        tag += ":dagger"
    if hashy:
        tag += ":hash-order"
    if case.get("hybrid"):
        return run_hybrid(case, rep, env, prog, compiled)
    try:
        a = rg.net_action(src, n)
        b = rg.net_action(out, n)
    except KeyError as e:
        rep.error("net_action:%s" % e, e)
        return
    rep.monitor({"gaussian_unitary": "gaussian_unitary:net-action", "passive": "passive:net-action",
                 "gaussian_merge": "gaussian_merge:gaussian-net-action"}[comp])
    err = max(np.max(np.abs(x - y)) for x, y in zip(a, b))
    scale = 1 + max(np.max(np.abs(x)) for x in a)
    rep.dev(comp + ".net-action", err / scale, 1e-8)
    if err > 1e-8 * scale:
        V("net-action" + tag, "the compiled program's net action differs from the source's by %.3e (used modes %s in a %d-mode "
          "register; compiled: %s)" % (err, used, n, [(t[0], t[2]) for t in out]), {"source": [str(c) for c in prog.circuit][:12]})
        return
    # structure promised by the compilers
    if comp == "gaussian_unitary":
        names = [t[0] for t in out]
        if names.count("GaussianTransform") > 1 or any(x not in ("GaussianTransform", "Dgate") for x in names):
            V("structure", "gaussian_unitary output is not one GaussianTransform followed by Dgates: %s" % names)
        for t in out:
            if not set(t[2]) <= set(used):
                V("structure", "compiled command acts on modes %s outside the modes the source used %s" % (t[2], used))
    if comp == "passive":
        if [t[0] for t in out] != ["PassiveChannel"] or sorted(out[0][2]) != used:
            V("structure", "passive output is not a single PassiveChannel on the used modes: %s" % [(t[0], t[2]) for t in out])


def run_hybrid(case, rep, env, prog, compiled):
    sf, ops, simrun = env["sf"], env["ops"], env["simrun"]
    n = case["n"]
    if len(case["cmds"]) >= 10:
        # long hybrid circuits exercise the rewrite loop (termination monitor, structure); their energy outgrows the
        # small Fock space of the execution leg, which is left to the short ones
        rep.observe("hybrid.compile-only(long)")
        return
    ket = jdec(case["ket"])
    D = ket.shape[0]
    states = []
    for which, p in (("source", prog), ("compiled", compiled)):
        run = sf.Program(n)
        with run.context as q:
            ops.Ket(ket) | tuple(q[i] for i in range(n))
            for c in p.circuit:
                c.op | tuple(q[r.ind] for r in c.reg)
        eng = sf.Engine("fock", backend_options={"cutoff_dim": D})
        try:
            eng.run(run)
        except Exception as e:
            rep.violation("gaussian_merge.compile", "exception-when-run:" + type(e).__name__, "the %s program raised %s on the fock "
                          "backend: %s" % (which, type(e).__name__, str(e)[:150]), case)
            return
        snap = simrun.Snap(eng.backend)
        states.append(snap)
    rep.monitor("gaussian_merge:fock-execution")
    a, b = states
    d = float(np.max(np.abs(a.dm - b.dm)))
    loss = max(1 - a.trace, 1 - b.trace)
    tol = 3e-2 + 5 * np.sqrt(max(loss, 0))
    rep.dev("gaussian_merge.fock-state-diff", d, tol)
    if loss > 2e-3:
        rep.skip("hybrid-truncation-dominated")
        return
    if d > tol:
        rep.violation("gaussian_merge.compile", "executed-state", "source and compiled hybrid circuits end in different Fock states "
                      "(max |diff| = %.3e, tolerance %.2e, trace loss %.1e); compiled: %s" % (
                          d, tol, loss, [str(c) for c in compiled.circuit][:10]), case, {"source": [str(c) for c in prog.circuit][:12]})


def plan(tier, seed, scale=1.0):
    n = int((90 if tier == "quick" else 1900) * scale)
    return [{"n": n, "timeout": 3000} for _ in range(16)]


def run_shard(shard, rep):
    env = load()
    rng = np.random.default_rng([shard["seed"], shard["id"], 11])
    for _ in range(shard["n"]):
        case = gen_case(rng)
        try:
            run_case(case, rep, env)
        except Exception as e:
            rep.error("run_case:" + case["compiler"], e)


def replay(case, rep):
    run_case(case, rep, load())
