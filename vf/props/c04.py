"""C04 — every internal circuit reordering respects mode and measurement dependencies.

Monitors: call/return pairs of list_to_grid, grid_to_DAG, list_to_DAG, DAG_to_list, group_operations,
optimize_circuit (multiset/order clause, only when no merge happened), GBS.compile (also through
Program.compile), GaussianMerge.compile (order clause on the commands it keeps).  Oracle: offline checker over
the recorded input/output lists; Command objects are identified by id(); dependencies are computed by
the harness from the symbol that generated each command, not by Command.get_dependencies.
Schedules: every call is repeated under TopoPerturb (random legal linearisations / random tie breaks).
"""
import itertools

import numpy as np

from ..instrument import TopoPerturb, MergeProgress, NoProgress
from ..common import setup_paths

PROPERTY = "C04"
RULE = ("exhaustive enumeration of all command sequences over 3 modes from a 28-symbol alphabet "
        "(1-mode gate x3, 2-mode gate on each ordered pair x6, homodyne x3, gate on b with a parameter "
        "measured on a!=b x6, MeasureFock on each non-empty subset x7) up to length 3 (quick) / 4 (thorough), "
        "plus random sequences of length 5-40 over <=8 modes; each executed through every routine, repeated "
        "under K seeded legal-order perturbations. non-trivial = the input has >=2 commands sharing a "
        "dependency and >=2 that do not (more than one legal order exists); distinct = the symbol sequence.")
ASSUMPTIONS = [
    "dependencies of a command = its modes plus the modes its measured parameters refer to (harness-computed)",
    "TopoPerturb returns only orders networkx's topological sorts are allowed to return",
    "optimize_circuit is judged on the multiset/order clause only when no merge succeeded (merging is C03)",
]
REQUIRED_MONITORS = ["order:DAG_to_list", "multiset:DAG_to_list", "partition:group_operations",
                     "gbs:accept-reject", "grid:wires", "order:gaussian_merge", "termination:gaussian_merge"]
EXHAUSTIVE = True


def alphabet(nm=3):
    syms = []
    for m in range(nm):
        syms.append(("g1", (m,), None))
    for a, b in itertools.permutations(range(nm), 2):
        syms.append(("g2", (a, b), None))
    for m in range(nm):
        syms.append(("mx", (m,), None))
    for a, b in itertools.permutations(range(nm), 2):
        syms.append(("gp", (b,), a))  # gate on b with parameter measured on a
    for a in range(nm):
        syms.append(("gs", (a,), a))  # gate on a with a parameter measured on a itself
    for k in range(1, nm + 1):
        for sub in itertools.combinations(range(nm), k):
            syms.append(("mf", sub, None))
    return syms


def sym_deps(s):
    d = set(s[1])
    if s[2] is not None:
        d.add(s[2])
    return d


def plan(tier, seed, scale=1.0):
    syms = alphabet(3)
    L = 3 if tier == "quick" else 4
    K = 3 if tier == "quick" else 8
    shards = []
    nsh = 16
    for i in range(nsh):
        shards.append({"kind": "enum", "L": L, "K": K, "part": i, "parts": nsh, "timeout": 1500,
                       "nrandom": int((150 if tier == "quick" else 1500) * scale)})
    return shards


G1_CLASSES = ["Sgate", "Rgate", "Kgate", "Vgate", "Pgate"]


class Ctx:
    def __init__(self):
        setup_paths()
        import strawberryfields as sf
        from strawberryfields import ops
        import strawberryfields.program_utils as pu
        from strawberryfields.compilers.gbs import GBS
        from strawberryfields.compilers.gaussian_merge import GaussianMerge

        self.sf, self.ops, self.pu, self.GBS, self.GaussianMerge = sf, ops, pu, GBS, GaussianMerge


def build(ctx, symseq, nm):
    """Fresh RegRefs and Command objects for a symbol sequence."""
    ops, pu = ctx.ops, ctx.pu
    regs = [pu.RegRef(i) for i in range(nm)]
    cmds = []
    for pos, (kind, modes, dep) in enumerate(symseq):
        if kind == "g1":
            cls = getattr(ops, G1_CLASSES[pos % len(G1_CLASSES)])
            op = cls(0.1 + 0.01 * pos)
        elif kind == "g2":
            op = ops.BSgate(0.3 + 0.01 * pos, 0.2)
        elif kind == "mx":
            op = ops.MeasureHomodyne(0.1 * pos)
        elif kind == "gp":
            op = ops.Dgate(regs[dep].par * (1 + pos), 0.1 * pos)
        elif kind == "gs":
            op = ops.Dgate(regs[dep].par * (1 + pos), 0.1 * pos)
        elif kind == "mf":
            op = ops.MeasureFock()
        elif kind == "del":
            op = ops._Delete()
        cmds.append(pu.Command(op, [regs[m] for m in modes]))
    # a deleted subsystem: Program.append flags the (shared) RegRef inactive when Del is appended, which changes the hash
    # of an object that earlier commands and the measurement_deps sets of earlier operations already hold
    for kind, modes, dep in symseq:
        if kind == "del":
            for m in modes:
                regs[m].active = False
    return regs, cmds


def check_same_multiset(out, inp):
    return sorted(map(id, out)) == sorted(map(id, inp))


def order_violation(inp, out, deps):
    """First pair (i, j), i<j in input sharing a dependency, whose order is inverted in out."""
    pos = {id(c): k for k, c in enumerate(out)}
    n = len(inp)
    for i in range(n):
        for j in range(i + 1, n):
            if deps[i] & deps[j]:
                pi, pj = pos.get(id(inp[i])), pos.get(id(inp[j]))
                if pi is None or pj is None:
                    continue
                if pi > pj:
                    return (i, j)
    return None


def nontrivial(deps):
    n = len(deps)
    shared = indep = 0
    for i in range(n):
        for j in range(i + 1, n):
            if deps[i] & deps[j]:
                shared += 1
            else:
                indep += 1
    return shared >= 1 and indep >= 1


def gbs_expected_valid(symseq):
    """Harness's own decision whether GBS.compile must accept."""
    deps = [sym_deps(s) for s in symseq]
    marked = [s[0] == "mf" for s in symseq]
    if not any(marked):
        return False, "no-fock"
    measured = set()
    for s in symseq:
        if s[0] == "mf":
            if measured & set(s[1]):
                return False, "double-measure"
            measured |= set(s[1])
    # descendant closure of marked commands
    n = len(symseq)
    tainted = [False] * n
    for j in range(n):
        for i in range(j):
            if deps[i] & deps[j] and (marked[i] or tainted[i]):
                tainted[j] = True
    for j in range(n):
        if tainted[j] and not marked[j]:
            return False, "op-after-fock"
    return True, "ok"


PREDICATES = ["mf", "g2", "g1", "mx", "odd"]


def run_sequence(ctx, rep, symseq, nm, K, rng, case_id):
    pu, ops = ctx.pu, ctx.ops
    deps = [sym_deps(s) for s in symseq]
    nt = nontrivial(deps)
    spec = {"symseq": [[s[0], list(s[1]), s[2]] for s in symseq], "nm": nm}
    rep.case(spec["symseq"], nt, sample={"sequence": spec["symseq"], "nm": nm} if nt and case_id % 997 == 0 else None)

    def viol(locus, kind, what, extra=None):
        c = dict(spec)
        c.update(extra or {})
        rep.violation(locus, kind, what, c)

    orders_seen = set()
    for k in range(K + 1):
        regs, cmds = build(ctx, symseq, nm)
        pert = None
        pseed = None
        if k > 0:
            pseed = int(rng.integers(2 ** 31))
            pert = TopoPerturb(np.random.default_rng(pseed)).install()
        try:
            # --- grid ------------------------------------------------------------------------
            grid = pu.list_to_grid(cmds)
            rep.monitor("grid:wires")
            for w in range(nm):
                exp = [id(c) for c, d in zip(cmds, deps) if w in d]
                got = [id(c) for c in grid.get(w, [])]
                if exp != got:
                    viol("list_to_grid", "wire-content", "wire %d lists %s, expected commands %s" % (
                        w, [cmds_index(cmds, c) for c in grid.get(w, [])],
                        [i for i, d in enumerate(deps) if w in d]), {"pseed": pseed})
            if set(grid.keys()) - set(range(nm)):
                viol("list_to_grid", "wire-content", "unknown wires %s" % (set(grid.keys()) - set(range(nm))))
            # --- DAG -------------------------------------------------------------------------
            dag = pu.grid_to_DAG(grid)
            rep.monitor("dag:edges")
            exp_edges = set()
            for w in range(nm):
                wl = [i for i, d in enumerate(deps) if w in d]
                for a, b in zip(wl, wl[1:]):
                    exp_edges.add((a, b))
            got_edges = set((cmds_index(cmds, a), cmds_index(cmds, b)) for a, b in dag.edges())
            if got_edges != exp_edges or sorted(cmds_index(cmds, v) for v in dag.nodes()) != list(range(len(cmds))):
                viol("grid_to_DAG", "edge-set", "edges %s expected %s" % (sorted(got_edges), sorted(exp_edges)),
                     {"pseed": pseed})
            # --- DAG_to_list -----------------------------------------------------------------
            out = pu.DAG_to_list(pu.list_to_DAG(cmds))
            rep.monitor("multiset:DAG_to_list")
            rep.monitor("order:DAG_to_list")
            if not check_same_multiset(out, cmds):
                viol("DAG_to_list", "multiset", "output commands %s != input (len %d)" % (
                    [cmds_index(cmds, c) for c in out], len(cmds)), {"pseed": pseed})
            ov = order_violation(cmds, out, deps)
            if ov:
                viol("DAG_to_list", "dependency-order", "commands %s share a dependency but were reordered: %s" % (
                    ov, [cmds_index(cmds, c) for c in out]), {"pseed": pseed})
            orders_seen.add(tuple(cmds_index(cmds, c) for c in out))
            # --- group_operations --------------------------------------------------------------
            for pname in PREDICATES:
                if pname == "odd":
                    marked_ids = {id(c.op) for i, c in enumerate(cmds) if i % 2 == 1}
                    pred = lambda op, s=marked_ids: id(op) in s
                else:
                    marked_ids = {id(c.op) for c, s in zip(cmds, symseq) if s[0] == pname}
                    pred = lambda op, s=marked_ids: id(op) in s
                A, B, C = pu.group_operations(cmds, pred)
                rep.monitor("partition:group_operations")
                allc = list(A) + list(B) + list(C)
                if not check_same_multiset(allc, cmds):
                    viol("group_operations", "multiset", "A+B+C = %s is not a permutation of the input" % (
                        [cmds_index(cmds, c) for c in allc]), {"pred": pname, "pseed": pseed})
                    continue
                ov = order_violation(cmds, allc, deps)
                if ov:
                    viol("group_operations", "dependency-order", "pair %s reordered in A+B+C=%s" % (
                        ov, [cmds_index(cmds, c) for c in allc]), {"pred": pname, "pseed": pseed})
                if any(id(c.op) in marked_ids for c in list(A) + list(C)):
                    viol("group_operations", "marked-outside-B", "A=%s B=%s C=%s marked=%s" % (
                        [cmds_index(cmds, c) for c in A], [cmds_index(cmds, c) for c in B],
                        [cmds_index(cmds, c) for c in C],
                        [i for i, c in enumerate(cmds) if id(c.op) in marked_ids]), {"pred": pname, "pseed": pseed})
                if not B and C:
                    viol("group_operations", "empty-B-nonempty-C", "B empty but C=%s" % (
                        [cmds_index(cmds, c) for c in C]), {"pred": pname, "pseed": pseed})
                if marked_ids:
                    rep.observe("group_operations.with-marked")
            # --- optimize_circuit (multiset/order clause only when nothing merged) -------------
            merged = [0]
            saved = {}
            for cls in (ops.Gate, ops.Channel, ops.Preparation, ops.Decomposition, ops.Measurement):
                saved[cls] = cls.__dict__["merge"]

                def mk(orig):
                    def merge(self, other):
                        r = orig(self, other)
                        merged[0] += 1
                        return r
                    return merge
                cls.merge = mk(saved[cls])
            try:
                out = pu.optimize_circuit(cmds)
            finally:
                for cls, o in saved.items():
                    cls.merge = o
            if merged[0] == 0:
                rep.monitor("multiset:optimize_circuit(no-merge)")
                if not check_same_multiset(out, cmds):
                    viol("optimize_circuit", "multiset", "nothing merged but output %s != input" % (
                        [cmds_index(cmds, c) for c in out]), {"pseed": pseed})
                else:
                    ov = order_violation(cmds, out, deps)
                    if ov:
                        viol("optimize_circuit", "dependency-order", "pair %s reordered: %s" % (
                            ov, [cmds_index(cmds, c) for c in out]), {"pseed": pseed})
            else:
                rep.observe("optimize_circuit.merged-skipped")
            # --- GBS.compile -------------------------------------------------------------------
            exp_ok, why = gbs_expected_valid(symseq)
            rep.monitor("gbs:accept-reject")
            try:
                # Program.compile hands a compiler `Program.register`: the RegRefs that are still active, so after a
                # deletion a position in that list is no longer a subsystem index
                res = ctx.GBS().compile(list(cmds), [r for r in regs if r.active])
                ok = True
            except pu.CircuitError as e:
                ok = False
                res = None
            if ok != exp_ok:
                viol("GBS.compile", "accept-reject", "compile %s but harness expects %s (%s)" % (
                    "accepted" if ok else "raised CircuitError", "valid" if exp_ok else "invalid", why),
                    {"pseed": pseed})
            elif ok:
                rep.monitor("gbs:structure")
                nonf_in = [c for c, s in zip(cmds, symseq) if s[0] != "mf"]
                nonf_out = [c for c in res if not isinstance(c.op, ops.MeasureFock)]
                fock_out = [c for c in res if isinstance(c.op, ops.MeasureFock)]
                if not check_same_multiset(nonf_out, nonf_in):
                    viol("GBS.compile", "multiset", "non-measurement commands changed", {"pseed": pseed})
                ovv = order_violation(nonf_in, nonf_out, [d for d, s in zip(deps, symseq) if s[0] != "mf"])
                if ovv:
                    viol("GBS.compile", "dependency-order", "pair %s reordered" % (ovv,), {"pseed": pseed})
                exp_meas = sorted(set(m for s in symseq if s[0] == "mf" for m in s[1]))
                if len(fock_out) != 1 or res[-1] is not fock_out[0] or [r.ind for r in fock_out[0].reg] != exp_meas:
                    viol("GBS.compile", "measurement-collection", "expected one trailing MeasureFock on %s, got %s" % (
                        exp_meas, [[r.ind for r in c.reg] for c in fock_out]), {"pseed": pseed})
                rep.observe("gbs.accepted")
            else:
                rep.observe("gbs.rejected:" + why)
        except Exception as e:
            # none of these routines documents an exception for a well-formed command list (GBS.compile's CircuitError is
            # handled above): a crash is reported at the repository function that was executing
            import traceback

            fr = [f for f in traceback.extract_tb(e.__traceback__) if "/strawberryfields/" in f.filename]
            viol(fr[0].name if fr else "reordering", "exception:" + type(e).__name__, "%s raised %s: %s" % (
                " <- ".join(f.name for f in reversed(fr[-3:])) if fr else "?", type(e).__name__, str(e)[:120]), {"pseed": pseed})
            break
        finally:
            if pert:
                pert.uninstall()
    rep.observe("distinct-orders-per-input:%d" % min(len(orders_seen), 6))


def cmds_index(cmds, c):
    for i, x in enumerate(cmds):
        if x is c:
            return i
    return -1


def place_del(seq, m, interior):
    """Deletion of subsystem m: as the last command, or (interior) straight after the last command that involves m, so that
    commands on the other subsystems - Fock measurements on higher-numbered ones in particular - follow it."""
    d = ("del", (m,), None)
    if not interior:
        return list(seq) + [d]
    last = max([i for i, s in enumerate(seq) if m in sym_deps(s)], default=-1)
    return list(seq[:last + 1]) + [d] + list(seq[last + 1:])


def random_symseq(rng, nm, length):
    syms = alphabet(nm) if nm <= 4 else None
    seq = []
    for _ in range(length):
        if syms is not None:
            seq.append(syms[int(rng.integers(len(syms)))])
        else:
            kind = ["g1", "g2", "mx", "gp", "mf", "gs"][int(rng.choice(6, p=[0.3, 0.3, 0.1, 0.15, 0.1, 0.05]))]
            if kind in ("g1", "mx"):
                seq.append((kind, (int(rng.integers(nm)),), None))
            elif kind == "gs":
                a = int(rng.integers(nm))
                seq.append((kind, (a,), a))
            elif kind == "g2":
                a, b = rng.choice(nm, 2, replace=False)
                seq.append((kind, (int(a), int(b)), None))
            elif kind == "gp":
                a, b = rng.choice(nm, 2, replace=False)
                seq.append((kind, (int(b),), int(a)))
            else:
                k = int(rng.integers(1, nm + 1))
                seq.append((kind, tuple(sorted(int(x) for x in rng.choice(nm, k, replace=False))), None))
    return seq


def gaussian_merge_order(ctx, rep, rng, n_cases):
    """Order clause for GaussianMerge.compile / Program.compile('gaussian_merge'): the commands the
    compiler keeps (non-Gaussian ones, same objects) keep their relative order when they share a mode;
    through the real Program.compile flow under TopoPerturb.  The rewrite loop is watched by MergeProgress."""
    for ci in range(n_cases):
        nm = int(rng.integers(2, 5))
        length = int(rng.integers(4, 14)) if ci % 4 else int(rng.integers(12, 22))
        spec = []
        for pos in range(length):
            r = rng.random()
            if nm >= 3 and r < 0.07:
                # a Gaussian operation on three modes has three direct predecessors: fan-in of unrelated one-mode gates
                spec.append(["Interferometer", [int(x) for x in rng.choice(nm, 3, replace=False)]])
            elif r < 0.3:
                spec.append([["Kgate", "Vgate"][int(rng.integers(2))], [int(rng.integers(nm))]])
            elif r < 0.4:
                spec.append(["CKgate", [int(x) for x in rng.choice(nm, 2, replace=False)]])
            elif r < 0.7:
                spec.append([["Sgate", "Rgate", "Dgate"][int(rng.integers(3))], [int(rng.integers(nm))]])
            else:
                spec.append([["BSgate", "S2gate"][int(rng.integers(2))], [int(x) for x in rng.choice(nm, 2, replace=False)]])
        if nm >= 3 and ci % 5 == 1:
            # fan-in motif: two-mode non-Gaussian gate, one-mode Gaussian gates on two different modes, three-mode Gaussian
            # operation with all three as direct predecessors
            a, b, c = (int(x) for x in rng.choice(nm, 3, replace=False))
            one = lambda: ["Dgate", "Dgate", "Sgate", "Rgate"][int(rng.integers(4))]
            at = int(rng.integers(0, len(spec) + 1))
            spec[at:at] = [["CKgate", [a, b]], [one(), [b]], [one(), [c]], ["Interferometer", [int(x) for x in rng.permutation([a, b, c])]]]
        run_gm_case(ctx, rep, spec, nm, int(rng.integers(2 ** 31)))


def run_gm_case(ctx, rep, spec, nm, pseed):
    sf, ops = ctx.sf, ctx.ops
    prog = sf.Program(nm)
    with prog.context as q:
        for pos, (cls, modes) in enumerate(spec):
            par = (0.1 + 0.01 * pos, 0.3) if cls in ("BSgate", "S2gate") else (0.1 + 0.01 * pos,)
            if cls == "Interferometer":
                from .. import gen
                par = (gen.haar(np.random.default_rng(pos), 3),)
            getattr(ops, cls)(*par) | tuple(q[m] for m in modes)
    case = {"gm_spec": spec, "nm": nm, "pseed": pseed}
    for _once in (0,):
        nong = [c for c in prog.circuit if type(c.op).__name__ in ("Kgate", "Vgate", "CKgate")]
        rep.case(["gm", spec], len(nong) >= 2)
        with TopoPerturb(np.random.default_rng(pseed)), MergeProgress() as mp:
            try:
                comp = prog.compile(compiler="gaussian_merge")
            except NoProgress as e:
                rep.monitor("termination:gaussian_merge")
                rep.violation("GaussianMerge.compile", "no-progress", "the rewrite loop never ends: %s" % str(e)[:300], case)
                continue
            except Exception as e:  # C11 judges exceptions; here only ordering
                rep.observe("gaussian_merge.exception:" + type(e).__name__)
                continue
        rep.monitor("order:gaussian_merge")
        rep.monitor("termination:gaussian_merge")
        rep.observe("gaussian_merge.rewrite-steps<=%d" % (4 * ((mp.max_steps + 3) // 4)))
        kept = [c for c in comp.circuit if type(c.op).__name__ in ("Kgate", "Vgate", "CKgate")]
        if sorted(map(id, kept)) != sorted(map(id, nong)):
            # compilers may legitimately re-create commands: compare by (class, modes, param) instead
            sig = lambda c: (type(c.op).__name__, tuple(r.ind for r in c.reg), float(c.op.p[0]))
            if sorted(map(sig, kept)) != sorted(map(sig, nong)):
                rep.violation("GaussianMerge.compile", "multiset", "non-Gaussian commands changed: %s vs %s" % (
                    sorted(map(sig, kept)), sorted(map(sig, nong))), case)
            continue
        d = [set(r.ind for r in c.reg) for c in nong]
        ov = order_violation(nong, kept, d)
        if ov:
            rep.violation("GaussianMerge.compile", "dependency-order",
                          "non-Gaussian commands %s share a mode but were reordered" % (ov,), case)


def run_shard(shard, rep):
    ctx = Ctx()
    rng = np.random.default_rng([shard["seed"], shard["id"], 4])
    syms = alphabet(3)
    L, K = shard["L"], shard["K"]
    cid = 0
    idx = 0
    for length in range(1, L + 1):
        for tup in itertools.product(range(len(syms)), repeat=length):
            idx += 1
            if idx % shard["parts"] != shard["part"]:
                continue
            # the full routine set runs on every sequence; K perturbations only on a 1/3 subsample at
            # length 4 to bound cost (the unperturbed call still runs on all)
            kk = K if (length < 4 or (idx // shard["parts"]) % 3 == 0) else 1
            seq = [syms[i] for i in tup]
            if cid % 3 == 2:
                # every third sequence ends with the deletion of one subsystem (always legal as the last command)
                seq = place_del(seq, (cid // 3) % 3, interior=(cid // 9) % 2 == 1)
                rep.observe("enumerated-with-Del")
            run_sequence(ctx, rep, seq, 3, kk, rng, cid)
            cid += 1
    rep.observe("enumerated-sequences", cid)
    for _ in range(shard["nrandom"]):
        nm = int(rng.integers(2, 9))
        seq = random_symseq(rng, nm, int(rng.integers(5, 41)))
        if rng.random() < 0.4:
            for m in sorted(int(x) for x in rng.choice(nm, int(rng.integers(1, 3)), replace=False)):
                seq = place_del(seq, m, interior=bool(rng.random() < 0.5))
        run_sequence(ctx, rep, seq, nm, K, rng, cid)
        cid += 1
        rep.observe("random-sequences")
    gaussian_merge_order(ctx, rep, rng, max(10, shard["nrandom"] // 4))


def replay(case, rep):
    ctx = Ctx()
    if "gm_spec" in case:
        run_gm_case(ctx, rep, [[c, list(m)] for c, m in case["gm_spec"]], case["nm"], case["pseed"])
        return
    symseq = [(s[0], tuple(s[1]), s[2]) for s in case["symseq"]]
    rng = np.random.default_rng(case.get("pseed") or 0)
    run_sequence(ctx, rep, symseq, case["nm"], 25, rng, 0)
