"""C10 — symbolic parameters behave exactly like the values they stand for.

Twin differential: every symbolic program (free parameters, measured parameters, arithmetic and sf.math function
expressions) has a harness-built twin with plain numbers substituted (expressions evaluated with Python's math, not
with par_evaluate).  Both go through the same pipeline (run / optimize-then-run / compile-then-run, several
backends) under a scripted RNG whose outcomes are unique per (mode, occurrence); the CommandTap streams (parameters
as evaluated at apply time) and the final states must coincide.  History monitor: every evaluated measured
parameter must equal its expression applied to the most recent outcome of its mode.  Error monitor: use before
measurement, unbound and unknown free parameters must raise ParameterError.  Cross-talk monitor: two programs using
the same names / modes, run alternately, must each see their own bindings.
"""
import cmath
import math

import numpy as np

from ..common import setup_paths, rnd
from ..instrument import RandomTap, CommandTap

PROPERTY = "C10"
RULE = ("seeded programs of 1-3 modes in which 1-5 operation parameters are expressions (sums, products, negation, division by "
        "constants, sin / cos / exp / sqrt / atan2 of free and measured parameters, re / im / Abs / arg / conjugate of complex "
        "(heterodyne, post-selected) outcomes, in first and non-first positions, on gates "
        "that are applied natively and on gates that are decomposed symbolically: Pgate, CXgate, CZgate, S2gate, Xgate, Zgate), "
        "with measure / re-prepare / re-measure histories; pipelines run, optimize-then-run, compile-then-run on gaussian, "
        "bosonic and fock; error cases. non-trivial = >= 1 expression with an operator (not a bare symbol) and the program passes "
        "through >= 1 decomposition or merge; distinct = rounded program + pipeline.")
ASSUMPTIONS = [
    "the numeric twin is built by the harness with Python's math module; scripted outcomes make both runs deterministic",
    "TensorFlow-tensor bindings cannot be exercised (tensorflow is not installed)",
]
REQUIRED_MONITORS = ["twin:final-state", "twin:stream", "history:measured-parameter", "twin:complex-outcome",
                     "errors:raise-ParameterError", "cross-talk"]

FUNCS = {
    "id": (lambda x: x, lambda m, x: x),
    "neg": (lambda x: -x, lambda m, x: -x),
    "scale": (lambda x: 0.5 * x, lambda m, x: 0.5 * x),
    "affine": (lambda x: 0.3 * x + 0.1, lambda m, x: 0.3 * x + 0.1),
    "div": (lambda x: x / 3.0, lambda m, x: x / 3.0),
    "sin": (lambda x: math.sin(x), lambda m, x: m.sin(x)),
    "cos": (lambda x: 0.4 * math.cos(x), lambda m, x: 0.4 * m.cos(x)),
    "exp": (lambda x: 0.2 * math.exp(-x * x), lambda m, x: 0.2 * m.exp(-x * x)),
    "sqrt": (lambda x: math.sqrt(x * x + 0.5) - 0.6, lambda m, x: m.sqrt(x * x + 0.5) - 0.6),
    "tanh": (lambda x: 0.3 * math.tanh(x), lambda m, x: 0.3 * m.tanh(x)),
}
FUNCS2 = {
    "sum": (lambda x, y: 0.5 * x + 0.25 * y, lambda m, x, y: 0.5 * x + 0.25 * y),
    "prod": (lambda x, y: 0.7 * x * y, lambda m, x, y: 0.7 * x * y),
    "atan2": (lambda x, y: 0.3 * math.atan2(x, y + 2.0), lambda m, x, y: 0.3 * m.atan2(x, y + 2.0)),
}
# functions of a complex (heterodyne) outcome; all real-valued, as gate parameters must be
CFUNCS = {
    "re": (lambda z: 0.8 * z.real, lambda m, z: 0.8 * m.re(z)),
    "im": (lambda z: 0.8 * z.imag, lambda m, z: 0.8 * m.im(z)),
    "abs": (lambda z: 0.5 * abs(z), lambda m, z: 0.5 * m.Abs(z)),
    "abs2": (lambda z: abs(z) ** 2, lambda m, z: m.Abs(z) ** 2),
    "arg": (lambda z: cmath.phase(z), lambda m, z: m.arg(z)),
    "argconj": (lambda z: cmath.phase(z.conjugate()), lambda m, z: m.arg(m.conjugate(z))),
    "zconj": (lambda z: (z * z.conjugate()).real, lambda m, z: m.re(z * m.conjugate(z))),
    "re_iz": (lambda z: (1j * z).real, lambda m, z: m.re(1j * z)),
    "im_z2": (lambda z: 0.5 * (z * z).imag, lambda m, z: 0.5 * m.im(z * z)),
    "re_conj_shift": (lambda z: (z.conjugate() + 0.2j).imag, lambda m, z: m.im(m.conjugate(z) + 0.2j)),
}
ONE = ["Dgate", "Sgate", "Rgate", "Xgate", "Zgate", "Pgate"]
TWO = ["BSgate", "S2gate", "CXgate", "CZgate"]
NARGS = {"Dgate": 2, "Sgate": 2, "Rgate": 1, "Xgate": 1, "Zgate": 1, "Pgate": 1, "BSgate": 2, "S2gate": 2, "CXgate": 1, "CZgate": 1}
DECOMPOSED = {"Xgate", "Zgate", "Pgate", "CXgate", "CZgate", "S2gate"}


def load():
    setup_paths()
    import strawberryfields as sf
    from strawberryfields import ops
    from strawberryfields.parameters import ParameterError
    from .. import simrun

    return {"sf": sf, "ops": ops, "ParameterError": ParameterError, "simrun": simrun}


def outcome(mode, occ):
    # unique per (subsystem, occurrence) and bounded for the two-digit subsystem indices of sparse registers
    return round(0.23 * occ + 0.17 * (mode % 5) + 0.011 * (mode // 5) - 0.35, 6)


def fock_outcome(mode, occ):
    """Scripted photon number of (subsystem, occurrence): different for neighbouring subsystems."""
    return int((2 * (mode % 5) + mode // 5 + occ) % 4)


def gen_case(rng):
    n = int(rng.integers(1, 4))
    L = int(rng.integers(3, 10))
    cmds = []
    measured = {}
    het = {}
    free = {}
    use_fock = n >= 2 and rng.random() < 0.25
    for pos in range(L):
        r = rng.random()
        if use_fock and r < 0.09:
            # photon counting on two subsystems listed in either order (gaussian backend; outcomes scripted at the sampler)
            a, b = (int(x) for x in rng.choice(n, 2, replace=False))
            cmds.append({"op": "MeasureFock", "m": [a, b]})
            for m in (a, b):
                measured[m] = measured.get(m, 0) + 1
                het.pop(m, None)
            continue
        if r < 0.18:
            m = int(rng.integers(n))
            if rng.random() < 0.3:
                z = [float(rng.uniform(-0.6, 0.6)), float(rng.choice([0.0, float(rng.uniform(-0.6, 0.6))], p=[0.15, 0.85]))]
                cmds.append({"op": "MeasureHeterodyne", "select": z, "m": [m]})
                het[m] = z
            else:
                cmds.append({"op": "MeasureHomodyne", "p": [float(rng.choice([0.0, 0.5]))], "m": [m]})
                het.pop(m, None)
            measured[m] = measured.get(m, 0) + 1
            if rng.random() < 0.4:
                cmds.append({"op": "Coherent", "p": [0.2, 0.3], "m": [m]})  # re-prepare
            continue
        if n >= 2 and r < 0.45:
            nm = str(rng.choice(TWO))
            a, b = (int(x) for x in rng.choice(n, 2, replace=False))
            m = [a, b]
        else:
            nm = str(rng.choice(ONE))
            m = [int(rng.integers(n))]
        p = [float(rng.uniform(-0.4, 0.4)) for _ in range(NARGS[nm])]
        c = {"op": nm, "p": p, "m": m, "dag": bool(rng.random() < 0.2)}
        if rng.random() < 0.6:
            posn = int(rng.integers(NARGS[nm]))
            srcs = []
            cand_meas = [k for k in measured if k not in m]
            for _ in range(2):
                if cand_meas and rng.random() < 0.5:
                    srcs.append({"kind": "meas", "mode": int(rng.choice(cand_meas))})
                else:
                    name = str(rng.choice(["a", "b", "c"]))
                    # (boundary: a parameter bound to exactly 0.0, or to the integer 1, is a binding like any other)
                    free.setdefault(name, float(rng.uniform(-0.8, 0.8)) if rng.random() < 0.8 else [0.0, 0.0, 1][int(rng.integers(3))])
                    srcs.append({"kind": "free", "name": name})
            hsrc = [k for k in cand_meas if k in het]
            if hsrc and rng.random() < 0.7:
                k = int(rng.choice(hsrc))
                c["expr"] = {"pos": posn, "f": str(rng.choice(list(CFUNCS))),
                             "args": [{"kind": "meas", "mode": k, "het": list(het[k])}]}
            elif any(s_["kind"] == "meas" and s_["mode"] in het for s_ in srcs):
                # a complex outcome may only enter through the complex-valued function table
                srcs = [{"kind": "free", "name": "a"}, {"kind": "free", "name": "a"}]
                free.setdefault("a", float(rng.uniform(-0.8, 0.8)))
                c["expr"] = {"pos": posn, "f": str(rng.choice(list(FUNCS))), "args": srcs[:1]}
            elif rng.random() < 0.35:
                c["expr"] = {"pos": posn, "f": str(rng.choice(list(FUNCS2))), "args": srcs}
            else:
                c["expr"] = {"pos": posn, "f": str(rng.choice(list(FUNCS))), "args": srcs[:1]}
        cmds.append(c)
    binding_mode = str(rng.choice(["args", "args", "default", "rebind"]))
    backend = str(rng.choice(["gaussian", "gaussian", "gaussian", "bosonic", "fock"]))
    if backend == "fock" and any(c["op"] == "MeasureHeterodyne" for c in cmds):
        backend = "gaussian"  # the Fock backend has no heterodyne measurement
    if any(c["op"] == "MeasureFock" for c in cmds):
        backend = "gaussian"
    pipeline = str(rng.choice(["run", "run", "optimize", "compile", "segments"]))
    if pipeline == "segments":
        # (the bosonic backend re-initialises its simulator for every segment: recorded finding under C08 / C09)
        backend = "gaussian" if backend == "bosonic" else backend
        binding_mode = "args"
    cuts = None
    if pipeline == "segments" and n >= 2:
        # measure a subsystem, (next segment) re-prepare and measure it again, (next segment) use its outcome elsewhere
        a_, b_ = (int(x) for x in rng.choice(n, 2, replace=False))
        base = len(cmds)
        cmds.append({"op": "MeasureHomodyne", "p": [0.0], "m": [a_]})
        cmds.append({"op": "Coherent", "p": [0.2, 0.3], "m": [a_]})
        cmds.append({"op": "MeasureHomodyne", "p": [0.5], "m": [a_]})
        cmds.append({"op": str(rng.choice(["Xgate", "Zgate", "Rgate"])), "p": [0.1], "m": [b_], "dag": False,
                     "expr": {"pos": 0, "f": "id" if "id" in FUNCS else list(FUNCS)[0], "args": [{"kind": "meas", "mode": a_}]}})
        cuts = [base + 1, base + 3]
    case = {"n": n, "cmds": cmds, "free": free, "binding": binding_mode,
            "pipeline": pipeline,
            "backend": backend}
    if cuts:
        case["cuts"] = cuts
    if backend != "fock" and rng.random() < 0.25:
        # same program on a sparse, unordered choice of subsystems of a larger register (measured parameters of
        # subsystems with two-digit indices, q10.par vs q1.par)
        N = int(rng.choice([n + 1, 11, 13, 24]))
        emb = [int(x) for x in rng.choice(N, n, replace=False)]
        if N >= 11 and max(emb) < 10:
            emb[int(rng.integers(n))] = int(rng.integers(10, N))
        case["N"], case["embed"] = N, emb
    return case


def build(env, case, symbolic):
    """Symbolic program or its numeric twin."""
    return build_chain(env, case, symbolic, [])[0]


def build_chain(env, case, symbolic, cuts):
    """The program split into consecutive segments at the command indices in `cuts` (each segment a Program built on its
    predecessor); outcome bookkeeping of the numeric twin runs across the segments."""
    sf, ops = env["sf"], env["ops"]
    emb = case.get("embed") or list(range(case["n"]))
    occ = {}
    last_fock = set()
    bounds = [0] + sorted(cuts) + [len(case["cmds"])]
    progs = []
    for a_, b_ in zip(bounds, bounds[1:]):
        prog = sf.Program(progs[-1] if progs else case.get("N", case["n"]))
        with prog.context as q_:
            q = [prog.reg_refs[i] for i in emb]
            _emit(env, case, symbolic, prog, q, emb, occ, last_fock, case["cmds"][a_:b_])
        progs.append(prog)
    return progs


def _emit(env, case, symbolic, prog, q, emb, occ, last_fock, cmds):
    sf, ops = env["sf"], env["ops"]
    if True:
        for c in cmds:
            if c["op"] == "MeasureFock":
                ops.MeasureFock() | tuple(q[m] for m in c["m"])
                for m in c["m"]:
                    occ[m] = occ.get(m, 0) + 1
                    last_fock.add(m)
                continue
            if c["op"] in ("MeasureHomodyne", "MeasureHeterodyne"):
                last_fock.discard(c["m"][0])
            if c["op"] == "MeasureHomodyne":
                ops.MeasureHomodyne(c["p"][0]) | q[c["m"][0]]
                occ[c["m"][0]] = occ.get(c["m"][0], 0) + 1
                continue
            if c["op"] == "MeasureHeterodyne":
                ops.MeasureHeterodyne(select=complex(*c["select"])) | q[c["m"][0]]
                occ[c["m"][0]] = occ.get(c["m"][0], 0) + 1
                continue
            if c["op"] == "Coherent":
                ops.Coherent(*c["p"]) | q[c["m"][0]]
                continue
            p = list(c["p"])
            e = c.get("expr")
            if e:
                if symbolic:
                    args = []
                    for s in e["args"]:
                        args.append(q[s["mode"]].par if s["kind"] == "meas" else prog.params(s["name"]))
                    if e["f"] in CFUNCS:
                        f = CFUNCS[e["f"]][1]
                    else:
                        f = FUNCS[e["f"]][1] if len(args) == 1 else FUNCS2[e["f"]][1]
                    p[e["pos"]] = f(sf.math, *args)
                else:
                    args = []
                    for s in e["args"]:
                        if s["kind"] == "meas" and s.get("het"):
                            args.append(complex(*s["het"]))
                        else:
                            if s["kind"] == "meas" and s["mode"] in last_fock:
                                args.append(float(fock_outcome(emb[s["mode"]], occ[s["mode"]])))
                            else:
                                args.append(outcome(emb[s["mode"]], occ[s["mode"]]) if s["kind"] == "meas" else case["free"][s["name"]])
                    if e["f"] in CFUNCS:
                        f = CFUNCS[e["f"]][0]
                    else:
                        f = FUNCS[e["f"]][0] if len(args) == 1 else FUNCS2[e["f"]][0]
                    p[e["pos"]] = f(*args)
            op = getattr(ops, c["op"])(*p)
            if c.get("dag"):
                op = op.H
            regs = tuple(q[i] for i in c["m"])
            op | (regs if len(regs) > 1 else regs[0])


class Scripted:
    def __init__(self, env):
        self.env = env
        self.occ = {}
        self.cur = None
        self.stream = []
        self.tap = CommandTap()
        self.tap.pre.append(self.pre)
        self.tap.post.append(self.post)
        self.rt = RandomTap(self.script)

    def pre(self, op, reg, backend, kwargs):
        if isinstance(op, self.env["ops"].MeasureFock):
            for r in reg:
                self.occ[r.ind] = self.occ.get(r.ind, 0) + 1
            # one column per listed subsystem, in the order they are listed
            self.cur_fock = [fock_outcome(r.ind, self.occ[r.ind]) for r in reg]
            return
        if isinstance(op, self.env["ops"].Measurement):
            key = reg[0].ind
            self.occ[key] = self.occ.get(key, 0) + 1
            self.cur = (key, self.occ[key])

    def post(self, op, reg, backend, kwargs, res, exc):
        from ..sfutil import numeric

        try:
            p = [complex(np.asarray(x).ravel()[0]) if np.size(x) == 1 else None for x in numeric(op.p)]
        except Exception as e:
            p = "unevaluable:" + type(e).__name__
        self.stream.append((type(op).__name__, p, tuple(r.ind for r in reg), bool(getattr(op, "dagger", False))))

    def script(self, name, a, k, real):
        if name == "walrus.hafnian_sample_state":
            return np.array([list(self.cur_fock)])
        if name == "np.random.multivariate_normal":
            mean = np.asarray(a[0])
            size = k.get("size", a[2] if len(a) > 2 else None)
            vec = np.zeros(len(mean))
            vec[0] = outcome(*self.cur)  # the backends work at hbar = 2 internally; sf.hbar = 2 here
            return vec if size is None else np.array([vec] * int(size))
        if name == "np.random.normal":
            return 0.05
        if name == "np.random.random":
            size = k.get("size", a[0] if a else None)
            return 0.0 if size is None else np.zeros(size)
        if name == "np.random.choice":
            x = a[0]
            size = k.get("size", a[1] if len(a) > 1 else None)
            first = 0 if isinstance(x, (int, np.integer)) else x[0]
            return first if size is None else np.array([first] * int(np.prod(size)))
        return NotImplemented

    def __enter__(self):
        self.rt.install()
        self.tap.install()
        return self

    def __exit__(self, *a):
        self.tap.uninstall()
        self.rt.uninstall()


def execute(env, case, prog, symbolic):
    sf = env["sf"]
    backend = case["backend"]
    conf = {"cutoff_dim": 6} if backend == "fock" else {}
    args = dict(case["free"]) if symbolic else {}
    if symbolic and case["binding"] == "default":
        for k, v in case["free"].items():
            if k in prog.free_params:
                prog.free_params[k].default = v
        args = {}
    if case["pipeline"] == "segments":
        # the symbolic program is run as 2-3 consecutive segments on one engine (list form or one call per segment); the
        # numeric twin stays one program: a measured parameter must evaluate to the latest outcome of its mode, whichever
        # segment that measurement was made in (re-measurements in later segments included)
        ncmd = len(case["cmds"])
        cuts = case.get("cuts") or sorted({int(x) for x in np.random.default_rng(ncmd * 7919 + len(case["free"])).integers(1, max(2, ncmd), size=2)})
        if symbolic and ncmd >= 2:
            with Scripted(env) as sc:
                eng = sf.Engine(backend, backend_options=conf)
                try:
                    chain = build_chain(env, case, True, cuts)
                    a = {k: v for k, v in args.items()}
                    if ncmd % 2 and not a:
                        eng.run(chain)
                    else:
                        for pr in chain:
                            eng.run(pr, args={k: v for k, v in a.items() if k in pr.free_params})
                    snap = env["simrun"].Snap(eng.backend)
                except Exception as e:
                    return e, sc.stream
            st = (snap.dm.copy(),) if snap.kind == "fock" else ((np.array(snap.w), np.array(snap.ms), np.array(snap.cs)) if snap.kind == "bosonic" else (snap.mu.copy(), snap.V.copy()))
            return st, sc.stream
    with Scripted(env) as sc:
        eng = sf.Engine(backend, backend_options=conf)
        try:
            p = prog
            if case["pipeline"] == "optimize":
                p = prog.optimize()
            elif case["pipeline"] == "compile":
                p = prog.compile(compiler=backend, optimize=True)
            a = {k: v for k, v in args.items() if k in prog.free_params}
            if symbolic and case["binding"] == "rebind" and a:
                # bind once to wrong values, run, reset, then bind the right ones
                wrong = {k: v + 0.37 for k, v in a.items()}
                eng.run(p, args=wrong)
                eng.reset()
                sc.occ.clear()
                sc.stream.clear()
            eng.run(p, args=a)
            snap = env["simrun"].Snap(eng.backend)
        except Exception as e:
            return e, sc.stream
    if snap.kind == "fock":
        st = (snap.dm.copy(),)
    elif snap.kind == "bosonic":
        st = (np.array(snap.w), np.array(snap.ms), np.array(snap.cs))
    else:
        st = (snap.mu.copy(), snap.V.copy())
    return st, sc.stream


def fock_homodyne_in(case):
    return case["backend"] == "fock" and any(c["op"] == "MeasureHomodyne" for c in case["cmds"])


def run_case(case, rep, env):
    V = lambda locus, kind, what, detail=None: rep.violation(locus, kind, what, case, detail)
    if fock_homodyne_in(case):
        case = dict(case, backend="gaussian")  # (the fock homodyne sampler is scripted differently; covered by C06)
    has_op = any(c.get("expr") and c["expr"]["f"] != "id" for c in case["cmds"])
    through = any(c.get("expr") and c["op"] in DECOMPOSED for c in case["cmds"]) or case["pipeline"] != "run"
    if case.get("embed"):
        rep.observe("register:sparse-embedding")
        if any(s_["kind"] == "meas" and case["embed"][s_["mode"]] >= 10 for c in case["cmds"] if c.get("expr") for s_ in c["expr"]["args"]):
            rep.observe("measured-parameter-of-subsystem>=10")
    rep.case([rnd(case["cmds"], 5), case["pipeline"], case["backend"], case["binding"], case.get("embed")], has_op and through,
             sample=case if rep.evaluations % 97 == 8 else None)
    rep.seen("expression-shapes", "|".join(sorted({c["expr"]["f"] + ":" + "+".join(a["kind"] for a in c["expr"]["args"])
                                                     for c in case["cmds"] if c.get("expr")})))
    sym = build(env, case, True)
    twin = build(env, case, False)
    r1, s1 = execute(env, case, sym, True)
    r2, s2 = execute(env, case, twin, False)
    if isinstance(r1, Exception) or isinstance(r2, Exception):
        if type(r1) != type(r2):
            V("parameters", "symbolic-vs-twin-exception", "symbolic program: %r; numeric twin: %r (pipeline %s, backend %s)" % (
                r1 if isinstance(r1, Exception) else "ok", r2 if isinstance(r2, Exception) else "ok", case["pipeline"], case["backend"]))
        else:
            rep.observe("both-raised:" + type(r1).__name__)
        return
    rep.monitor("twin:final-state")
    d = max(float(np.max(np.abs(np.asarray(x) - np.asarray(y)))) if np.shape(x) == np.shape(y) else np.inf for x, y in zip(r1, r2))
    rep.dev("twin.final-state", d if np.isfinite(d) else 1e9, 1e-9)
    if d > 1e-9:
        V("parameters", "symbolic-vs-twin-state", "the symbolic program and its numeric twin end in different states (max diff %.3e; "
          "pipeline %s, backend %s, binding %s)" % (d, case["pipeline"], case["backend"], case["binding"]))
        return
    if case["pipeline"] == "run":
        rep.monitor("twin:stream")
        if len(s1) != len(s2):
            V("parameters", "symbolic-vs-twin-stream", "different number of applied commands: %d vs %d" % (len(s1), len(s2)))
            return
        for i, (a, b) in enumerate(zip(s1, s2)):
            if isinstance(a[1], str) or isinstance(b[1], str):
                V("parameters", "unevaluable-at-apply", "command %d %s: parameters %s / %s" % (i, a[0], a[1], b[1]))
                return
            same = a[0] == b[0] and a[2] == b[2] and a[3] == b[3] and len(a[1]) == len(b[1]) and all(
                (x is None and y is None) or (x is not None and y is not None and abs(x - y) <= 1e-9 * (1 + abs(y))) for x, y in zip(a[1], b[1]))
            if not same:
                V("parameters", "symbolic-vs-twin-stream", "applied command %d differs: symbolic %s, twin %s" % (i, rnd(a, 8), rnd(b, 8)))
                return
    # history monitor: the twin was built from "latest outcome of the mode"; equality of the streams above is the check
    if any(s["kind"] == "meas" for c in case["cmds"] if c.get("expr") for s in c["expr"]["args"]):
        rep.monitor("history:measured-parameter")
    if any(s.get("het") for c in case["cmds"] if c.get("expr") for s in c["expr"]["args"]):
        rep.monitor("twin:complex-outcome")


def error_cases(env, rep, rng):
    sf, ops, PE = env["sf"], env["ops"], env["ParameterError"]
    for kind in ("use-before-measure", "unbound", "unknown-name", "use-before-measure-decomposed", "unbound-nonfirst"):
        for backend in ("gaussian", "fock", "bosonic"):
            rep.case(["error", kind, backend], True)
            prog = sf.Program(2)
            with prog.context as q:
                ops.Sgate(0.3) | q[0]
                if kind == "use-before-measure":
                    ops.Dgate(q[1].par * 0.5) | q[0]
                    ops.MeasureX | q[1]
                elif kind == "use-before-measure-decomposed":
                    ops.Xgate(q[1].par * 0.5) | q[0]
                    ops.MeasureX | q[1]
                elif kind == "unbound":
                    ops.Rgate(prog.params("theta")) | q[0]
                elif kind == "unbound-nonfirst":
                    ops.Dgate(0.2, prog.params("phi") * 2) | q[0]
                else:
                    ops.Rgate(prog.params("theta")) | q[0]
            eng = sf.Engine(backend, backend_options={"cutoff_dim": 5} if backend == "fock" else {})
            args = {"theta": 0.3, "nonexistent": 1.0} if kind == "unknown-name" else {}
            rep.monitor("errors:raise-ParameterError")
            case = {"error": kind, "backend": backend}
            try:
                eng.run(prog, args=args)
                rep.violation("parameters", "no-ParameterError:" + kind, "%s on %s did not raise ParameterError" % (kind, backend), case)
            except PE:
                rep.observe("error.raised:%s" % kind)
            except Exception as e:
                rep.violation("parameters", "wrong-error:" + kind, "%s on %s raised %s instead of ParameterError: %s" % (
                    kind, backend, type(e).__name__, str(e)[:100]), case)


def cross_talk(env, rep, rng, ncases):
    """Two programs using the same parameter name and the same measured mode, run alternately on separate engines."""
    sf, ops = env["sf"], env["ops"]
    for i in range(ncases):
        va, vb = float(rng.uniform(0.1, 0.5)), float(rng.uniform(-0.5, -0.1))
        order = ["build-both-then-run", "interleaved"][i % 2]
        use_meas = bool(i % 4 >= 2)
        case = {"cross": order, "va": va, "vb": vb, "measured": use_meas}
        rep.case(["cross", order, use_meas, round(va, 4), round(vb, 4)], True)

        def mk():
            p = sf.Program(2)
            with p.context as q:
                if use_meas:
                    ops.Coherent(0.4, 0.0) | q[1]
                    ops.MeasureX | q[1]
                    ops.Dgate(q[1].par * 0.5) | q[0]
                else:
                    ops.Dgate(p.params("a")) | q[0]
            return p

        results = []
        with Scripted(env) as sc:
            try:
                if order == "build-both-then-run":
                    P1, P2 = mk(), mk()
                    e1, e2 = sf.Engine("gaussian"), sf.Engine("gaussian")
                    r1 = e1.run(P1, args={} if use_meas else {"a": va})
                    sc.occ.clear()
                    r2 = e2.run(P2, args={} if use_meas else {"a": vb})
                    sc.occ.clear()
                    # run the first one again on a fresh engine: it must still see its own binding
                    r1b = sf.Engine("gaussian").run(P1, args={} if use_meas else {})
                else:
                    P1 = mk()
                    e1 = sf.Engine("gaussian")
                    r1 = e1.run(P1, args={} if use_meas else {"a": va})
                    sc.occ.clear()
                    P2 = mk()
                    e2 = sf.Engine("gaussian")
                    r2 = e2.run(P2, args={} if use_meas else {"a": vb})
                    sc.occ.clear()
                    r1b = sf.Engine("gaussian").run(P1, args={} if use_meas else {})
                results = [r.state.means()[0] for r in (r1, r2, r1b)]
            except Exception as e:
                results = e
        rep.monitor("cross-talk")
        exp1 = 2 * (0.5 * outcome(1, 1)) if use_meas else 2 * va
        exp2 = exp1 if use_meas else 2 * vb
        if isinstance(results, Exception):
            rep.violation("parameters", "cross-talk:" + ("measured" if use_meas else "free"), "two programs sharing %s raised %s: %s (%s)" % (
                "a measured mode" if use_meas else "a parameter name", type(results).__name__, str(results)[:100], order), case)
            continue
        ok = abs(results[0] - exp1) < 1e-9 and abs(results[1] - exp2) < 1e-9 and abs(results[2] - exp1) < 1e-9
        if not ok:
            rep.violation("parameters", "cross-talk:" + ("measured" if use_meas else "free"),
                          "programs sharing %s interfere: first run <x0> = %.6f (expected %.6f), second program %.6f (expected %.6f), "
                          "first program again without new arguments %.6f (expected %.6f) [%s]" % (
                              "a measured mode" if use_meas else "the parameter name 'a'", results[0], exp1, results[1], exp2,
                              results[2], exp1, order), case)


def plan(tier, seed, scale=1.0):
    n = int((70 if tier == "quick" else 1400) * scale)
    return [{"n": n, "timeout": 3000} for _ in range(16)]


def run_shard(shard, rep):
    env = load()
    rng = np.random.default_rng([shard["seed"], shard["id"], 10])
    for _ in range(shard["n"]):
        case = gen_case(rng)
        try:
            run_case(case, rep, env)
        except Exception as e:
            rep.error("run_case", e)
    try:
        error_cases(env, rep, rng)
        cross_talk(env, rep, rng, 4 if shard.get("tier") == "quick" else 16)
    except Exception as e:
        rep.error("extra", e)


def replay(case, rep):
    env = load()
    if "error" in case:
        error_cases(env, rep, np.random.default_rng(0))
    elif "cross" in case:
        cross_talk(env, rep, np.random.default_rng(0), 4)
    else:
        run_case(case, rep, env)
