"""C14 — saving and loading a program preserves its meaning.

Monitor: every round trip  loads(serialise(P))  through the real Blackbird and XIR writers / readers (also via
save / load on a temporary file) is compared with P by an independent structural comparator (class, modes, dagger
flag, every parameter - numeric to 1e-12, arrays elementwise, symbolic ones by substituting random bindings /
outcomes for the symbols by name -, post-selection, dark counts, target, run and backend options, TDM parameter
arrays) and, for programs the gaussian backend can run, by execution of both programs under a scripted RNG with
CommandTap streams and final states compared.
"""
import io
import os
import tempfile

import numpy as np

from ..common import setup_paths, rnd, enc, dec as jdec
from ..instrument import RandomTap
from .. import gen

PROPERTY = "C14"
RULE = ("seeded programs of 1-4 modes with 3-10 commands drawn from every operation class of the front end (gates incl. dagger "
        "forms, channels, Gaussian and Fock-basis preparations, all measurements with post-selection and dark counts, "
        "interferometers / Gaussian transforms / graph embeddings with array parameters), scalar / array / complex / free-symbolic "
        "/ measured-expression parameters, compile targets with run and backend options, and TDM programs with 1-3 parameter "
        "arrays; each serialised with both writers and loaded back. non-trivial = the program has >= 3 commands and >= 1 "
        "non-default feature (dagger, symbol, select, array); distinct = rounded program + format.")
ASSUMPTIONS = [
    "symbolic parameters are compared by evaluating both sides with sympy substitution of random values by symbol name",
    "keyword options that do not change the transformation (mesh of an Interferometer, tolerance values) are not compared",
]
REQUIRED_MONITORS = ["roundtrip:blackbird", "roundtrip:xir", "roundtrip:file", "roundtrip:tdm", "structure:compared", "execution:compared",
                     "codegen:generated", "codegen:compared"]

ONE = ["Dgate", "Xgate", "Zgate", "Sgate", "Rgate", "Pgate", "Vgate", "Kgate", "Fouriergate"]
TWO = ["BSgate", "MZgate", "S2gate", "CXgate", "CZgate", "CKgate"]
NARGS = {"Dgate": 2, "Xgate": 1, "Zgate": 1, "Sgate": 2, "Rgate": 1, "Pgate": 1, "Vgate": 1, "Kgate": 1, "Fouriergate": 0, "BSgate": 2,
         "MZgate": 2, "S2gate": 2, "CXgate": 1, "CZgate": 1, "CKgate": 1, "LossChannel": 1, "ThermalLossChannel": 2, "Coherent": 2,
         "Squeezed": 2, "DisplacedSqueezed": 4, "Thermal": 1, "Vacuum": 0, "Fock": 1}
GAUSSIAN_RUNNABLE = {"Dgate", "Xgate", "Zgate", "Sgate", "Rgate", "Pgate", "Fouriergate", "BSgate", "MZgate", "S2gate", "CXgate",
                     "CZgate", "LossChannel", "ThermalLossChannel", "Coherent", "Squeezed", "DisplacedSqueezed", "Thermal", "Vacuum",
                     "MeasureHomodyne", "Interferometer", "GaussianTransform", "Gaussian", "GraphEmbed", "BipartiteGraphEmbed",
                     "PassiveChannel", "MeasureHeterodyne"}


def load():
    setup_paths()
    import strawberryfields as sf
    from strawberryfields import ops
    import sympy

    return {"sf": sf, "ops": ops, "sympy": sympy}


def gen_case(rng):
    n = int(rng.integers(1, 5))
    L = int(rng.integers(3, 11))
    cmds = []
    measured = []
    free = []
    for _ in range(L):
        r = rng.random()
        if r < 0.3:
            nm = str(rng.choice(ONE))
            c = {"op": nm, "p": [float(rng.uniform(-1, 1)) for _ in range(NARGS[nm])], "m": [int(rng.integers(n))],
                 "dag": bool(NARGS[nm] >= 0 and rng.random() < 0.3)}
        elif r < 0.5 and n >= 2:
            nm = str(rng.choice(TWO))
            a, b = (int(x) for x in rng.choice(n, 2, replace=False))
            c = {"op": nm, "p": [float(rng.uniform(-1, 1)) for _ in range(NARGS[nm])], "m": [a, b], "dag": bool(rng.random() < 0.3)}
        elif r < 0.62:
            nm = str(rng.choice(["LossChannel", "ThermalLossChannel", "Coherent", "Squeezed", "DisplacedSqueezed", "Thermal", "Vacuum", "Fock"]))
            p = [float(rng.uniform(0.1, 0.9)) for _ in range(NARGS[nm])]
            if nm == "Fock":
                p = [int(rng.integers(0, 4))]
            c = {"op": nm, "p": p, "m": [int(rng.integers(n))], "dag": False}
        elif r < 0.74:
            k = int(rng.integers(1, n + 1))
            modes = [int(x) for x in rng.choice(n, k, replace=False)]
            which = str(rng.choice(["Interferometer", "GaussianTransform", "Gaussian", "GraphEmbed", "PassiveChannel", "Ket"]))
            if which == "Interferometer":
                c = {"op": which, "p": [enc(gen.haar(rng, k))], "m": modes, "dag": False,
                     "kw": {"mesh": str(rng.choice(["rectangular", "triangular"]))}}
            elif which == "GaussianTransform":
                c = {"op": which, "p": [enc(gen.random_symplectic(rng, k, True, rng.uniform(-0.5, 0.5, k)))], "m": modes, "dag": False}
            elif which == "Gaussian":
                S = gen.random_symplectic(rng, k, True, rng.uniform(-0.4, 0.4, k))
                c = {"op": which, "p": [enc(S @ S.T), enc(rng.uniform(-0.5, 0.5, 2 * k))], "m": modes, "dag": False}
            elif which == "GraphEmbed":
                if k < 2:
                    continue
                A = (rng.random((k, k)) < 0.7).astype(float)
                A = np.triu(A, 1)
                A = A + A.T
                if A.sum() == 0:
                    A[0, 1] = A[1, 0] = 1.0
                c = {"op": which, "p": [enc(A)], "m": modes, "dag": False, "kw": {"mean_photon_per_mode": 0.5}}
            elif which == "PassiveChannel":
                c = {"op": which, "p": [enc(0.8 * gen.haar(rng, k))], "m": modes, "dag": False}
            else:
                ket = np.zeros((4,) * k, dtype=complex)
                ket[(0,) * k] = 0.6
                ket[(1,) * k] = 0.8j
                c = {"op": "Ket", "p": [enc(ket)], "m": modes, "dag": False}
        else:
            m = int(rng.integers(n))
            kind = str(rng.choice(["homodyne", "homodyne-select", "heterodyne", "fock", "fock-select", "fock-dark", "threshold"]))
            if kind.startswith("homodyne"):
                c = {"op": "MeasureHomodyne", "p": [float(rng.choice([0.0, np.pi / 2, 0.37]))], "m": [m], "dag": False}
                if kind.endswith("select"):
                    # (boundary: post-selection on exactly zero is a value like any other)
                    c["kw"] = {"select": float(rng.choice([0.0, 0.0, float(rng.uniform(-1, 1)), float(rng.uniform(-1, 1))]))}
                if m not in measured:
                    measured.append(m)
            elif kind == "heterodyne":
                c = {"op": "MeasureHeterodyne", "p": [], "m": [m], "dag": False}
                if rng.random() < 0.5:
                    c["kw"] = {"select": enc(complex(0.0, 0.0) if rng.random() < 0.4 else complex(float(rng.normal(0, 0.5)), float(rng.choice([0.0, rng.normal(0, 0.5)]))))}
            else:
                k = int(rng.integers(1, n + 1))
                modes = [int(x) for x in rng.choice(n, k, replace=False)]
                c = {"op": "MeasureFock" if kind != "threshold" else "MeasureThreshold", "p": [], "m": modes, "dag": False}
                if kind == "fock-select":
                    c["kw"] = {"select": [int(x) for x in rng.integers(0, 3, k)]}
                elif kind == "fock-dark":
                    c["kw"] = {"dark_counts": [float(x) for x in rng.uniform(0.1, 0.9, k) * (rng.random(k) < 0.8)]}
        # symbolic parameters
        if c["op"] in NARGS and NARGS.get(c["op"], 0) >= 1 and c["op"] != "Fock" and rng.random() < 0.3:
            pos = int(rng.integers(NARGS[c["op"]]))
            cand = [x for x in measured if x not in c["m"]]
            if cand and rng.random() < 0.5:
                c["sym"] = {"pos": pos, "kind": "meas", "mode": int(rng.choice(cand)), "f": str(rng.choice(["id", "scale", "affine", "sin"]))}
            else:
                nm_ = str(rng.choice(["a", "b", "theta"]))
                if nm_ not in free:
                    free.append(nm_)
                c["sym"] = {"pos": pos, "kind": "free", "name": nm_, "f": str(rng.choice(["id", "scale", "affine", "sin"]))}
        cmds.append(c)
    target = None
    if rng.random() < 0.3:
        target = {"compiler": str(rng.choice(["gaussian", "fock", "bosonic"])), "shots": int(rng.choice([1, 5, 100])),
                  "cutoff_dim": int(rng.choice([5, 8]))}
    case = {"n": n, "cmds": cmds, "target": target, "format": str(rng.choice(["blackbird", "xir", "blackbird-file", "xir-file"])),
            "hbar": float(rng.choice([2.0, 2.0, 2.0, 1.0]))}
    if rng.random() < 0.3:
        # the same program on a sparse choice of subsystems of a large register (two- and three-digit indices, logical
        # order different from index order): subsystem indices are part of what the formats must preserve
        N = int(rng.choice([n + 1, 11, 13, 24, 101, 120]))
        if N > n:
            case["N"] = N
            emb = [int(x) for x in rng.choice(N, n, replace=False)]
            if N >= 11 and max(emb) < 10:
                emb[int(rng.integers(n))] = int(rng.integers(10, N))
            case["embed"] = emb
    return case


def build(env, case):
    sf, ops = env["sf"], env["ops"]
    emb = case.get("embed") or list(range(case["n"]))
    prog = sf.Program(case.get("N", case["n"]), name="prog")
    with prog.context as q_:
        q = [q_[i] for i in emb]
        for c in case["cmds"]:
            p = [jdec(x) for x in c["p"]]
            kw = {k: jdec(v) for k, v in c.get("kw", {}).items()}
            s = c.get("sym")
            if s:
                x = q[s["mode"]].par if s["kind"] == "meas" else prog.params(s["name"])
                p[s["pos"]] = {"id": x, "scale": 0.5 * x, "affine": 0.3 * x + 0.1, "sin": sf.math.sin(x)}[s["f"]]
            op = getattr(ops, c["op"])(*p, **kw)
            if c.get("dag") and hasattr(op, "H"):
                op = op.H
            regs = tuple(q[i] for i in c["m"])
            op | (regs if len(regs) > 1 else regs[0])
    return prog


def roundtrip(env, prog, fmt):
    sf = env["sf"]
    ir = "xir" if fmt.startswith("xir") else "blackbird"
    if fmt.endswith("file"):
        d = tempfile.mkdtemp(prefix="vf-c14-", dir=os.path.join(os.path.dirname(os.path.dirname(os.path.dirname(__file__))), ".cache")
                             if os.path.isdir(os.path.join(os.path.dirname(os.path.dirname(os.path.dirname(__file__))), ".cache")) else None)
        try:
            path = os.path.join(d, "p")
            sf.save(path, prog, ir=ir)
            path2 = path + (".xir" if ir == "xir" else ".xbb")
            return sf.load(path2, ir=ir)
        finally:
            import shutil

            shutil.rmtree(d, ignore_errors=True)
    text = sf.io.to_xir(prog).serialize() if ir == "xir" else sf.io.to_blackbird(prog).serialize()
    return sf.io.loads(text, ir=ir)


def sym_value(env, x, binding):
    sympy = env["sympy"]
    subs = {}
    for a in x.free_symbols:
        key = str(a.name) if hasattr(a, "name") else str(a)
        key = key.strip("{}")
        if key not in binding:
            binding[key] = 0.13 + 0.21 * len(binding)
        subs[a] = binding[key]
    return complex(x.subs(subs).evalf())


def param_equal(env, a, b):
    sympy = env["sympy"]
    if isinstance(a, str) or isinstance(b, str):
        return isinstance(a, str) and isinstance(b, str) and a == b, "string"
    # sympy numbers (produced by symbolic decompositions of numeric gates) are plain numbers
    if isinstance(a, sympy.Basic) and not a.free_symbols:
        a = complex(a)
    if isinstance(b, sympy.Basic) and not b.free_symbols:
        b = complex(b)
    sa, sb = isinstance(a, sympy.Basic), isinstance(b, sympy.Basic)
    if sa != sb:
        return False, "symbolic-vs-%s" % type(b if sa else a).__name__
    if sa:
        for trial in range(3):
            binding = {}
            va = sym_value(env, a, binding)
            vb = sym_value(env, b, dict(binding))
            if set(str(x).strip("{}") for x in a.free_symbols) != set(str(x).strip("{}") for x in b.free_symbols):
                return False, "different-symbols"
            if abs(va - vb) > 1e-9 * (1 + abs(va)):
                return False, "symbolic-value"
        return True, ""
    try:
        A, B = np.asarray(a), np.asarray(b)
        if A.dtype == object or B.dtype == object:
            return str(a) == str(b), "object"
        if A.shape != B.shape:
            return False, "shape %s vs %s" % (A.shape, B.shape)
        return bool(np.allclose(A, B, rtol=1e-12, atol=1e-12)), "value"
    except Exception:
        return a == b, "generic"


def compare(env, P, Q, rep, V):
    """Structural comparison; returns True when identical."""
    rep.monitor("structure:compared")
    if len(P.circuit) != len(Q.circuit):
        V("structure:length", "%d commands written, %d read back" % (len(P.circuit), len(Q.circuit)))
        return False
    if P.num_subsystems != Q.num_subsystems and max((r.ind for c in P.circuit for r in c.reg), default=0) + 1 == P.num_subsystems:
        V("structure:register", "register size %d -> %d" % (P.num_subsystems, Q.num_subsystems))
        return False
    for i, (a, b) in enumerate(zip(P.circuit, Q.circuit)):
        an, bn = type(a.op).__name__, type(b.op).__name__
        if an != bn:
            V("structure:class", "command %d: %s read back as %s" % (i, an, bn))
            return False
        if [r.ind for r in a.reg] != [r.ind for r in b.reg]:
            V("structure:modes", "command %d %s: modes %s -> %s" % (i, an, [r.ind for r in a.reg], [r.ind for r in b.reg]))
            return False
        if bool(getattr(a.op, "dagger", False)) != bool(getattr(b.op, "dagger", False)):
            # a writer may express the inverse of a one-parameter-group gate by negating its first parameter
            ONEPAR = ("Dgate", "Xgate", "Zgate", "Sgate", "Rgate", "Pgate", "Vgate", "Kgate", "BSgate", "S2gate", "CXgate", "CZgate", "CKgate")
            ok = False
            if an in ONEPAR and len(a.op.p) == len(b.op.p):
                sa_, sb_ = (-1 if a.op.dagger else 1), (-1 if getattr(b.op, "dagger", False) else 1)
                okp, _ = param_equal(env, sa_ * a.op.p[0], sb_ * b.op.p[0])
                ok = okp and all(param_equal(env, x, y)[0] for x, y in zip(a.op.p[1:], b.op.p[1:]))
            if not ok:
                V("dagger-lost", "command %d: %s%s is read back as %s%s with parameters %s" % (
                    i, an, ".H" if getattr(a.op, "dagger", False) else "", bn, ".H" if getattr(b.op, "dagger", False) else "",
                    [str(x)[:30] for x in b.op.p]))
                return False
            continue
        pa, pb = list(a.op.p), list(b.op.p)
        if an == "Gaussian":
            pass
        if len(pa) != len(pb):
            V("structure:param-count", "command %d %s: %d parameters -> %d" % (i, an, len(pa), len(pb)))
            return False
        for j, (x, y) in enumerate(zip(pa, pb)):
            ok, why = param_equal(env, x, y)
            if not ok:
                kind = "parameter"
                if why.startswith("symbolic-vs") or why == "string":
                    kind = "symbolic-parameter-type"
                elif why in ("different-symbols", "symbolic-value"):
                    kind = "symbolic-parameter-value"
                V(kind, "command %d %s parameter %d: %s read back as %r (%s)" % (i, an, j, str(x)[:60], (str(y)[:60]), why))
                return False
        # constructor keyword options that change the transformation
        if an == "GraphEmbed":
            if not (np.allclose(getattr(a.op, "sq", 0), getattr(b.op, "sq", 0)) and bool(a.op.identity) == bool(b.op.identity)):
                V("constructor-option-lost:GraphEmbed", "command %d GraphEmbed: squeezing values %s -> %s (mean_photon_per_mode / "
                  "make_traceless are not written)" % (i, np.round(getattr(a.op, "sq", 0), 4), np.round(getattr(b.op, "sq", 0), 4)))
                return False
        if an == "GaussianTransform" and bool(a.op.vacuum) != bool(b.op.vacuum):
            V("constructor-option-lost:GaussianTransform", "command %d GaussianTransform: vacuum=%s -> %s" % (i, a.op.vacuum, b.op.vacuum))
            return False
        if an == "BipartiteGraphEmbed" and (a.op.mean_photon_per_mode != b.op.mean_photon_per_mode or a.op.ns != b.op.ns):
            V("constructor-option-lost:BipartiteGraphEmbed", "command %d BipartiteGraphEmbed: mean_photon_per_mode %s -> %s, ns %s -> %s" % (
                i, a.op.mean_photon_per_mode, b.op.mean_photon_per_mode, a.op.ns, b.op.ns))
            return False
        for attr in ("select", "dark_counts"):
            x, y = getattr(a.op, attr, None), getattr(b.op, attr, None)
            if (x is None) != (y is None) or (x is not None and not np.allclose(np.asarray(x, dtype=complex), np.asarray(y, dtype=complex))):
                V("option:" + attr, "command %d %s: %s %r -> %r" % (i, an, attr, x, y))
                return False
    if P.target != Q.target:
        V("option:target", "target %r -> %r" % (P.target, Q.target))
        return False
    for attr in ("run_options", "backend_options"):
        x, y = dict(getattr(P, attr)), dict(getattr(Q, attr))
        if x != y and P.target is not None:
            V("option:" + attr, "%s %r -> %r" % (attr, x, y))
            return False
    return True


def execute(env, prog, args):
    sf = env["sf"]
    cnt = [0]

    def script(name, a, k, real):
        if name == "np.random.multivariate_normal":
            mean = np.asarray(a[0])
            cnt[0] += 1
            size = k.get("size", a[2] if len(a) > 2 else None)
            vec = np.zeros(len(mean))
            vec[0] = 0.1 * cnt[0]
            vec[1:] = 0.05
            return vec if size is None else np.array([vec] * int(size))
        if name == "np.random.normal":
            return 0.07
        return NotImplemented

    eng = sf.Engine("gaussian")
    with RandomTap(script):
        res = eng.run(prog, args={k: v for k, v in args.items() if k in prog.free_params})
    return np.asarray(res.state.means()), np.asarray(res.state.cov())


def run_case(case, rep, env):
    sf = env["sf"]
    fmt = case["format"]
    V = lambda kind, what: rep.violation(("xir" if fmt.startswith("xir") else "blackbird") + "_io", kind, "[%s] %s" % (fmt, what), case)
    sf.hbar = case.get("hbar", 2.0)
    try:
        P = build(env, case)
        if case.get("target"):
            t = case["target"]
            try:
                P = P.compile(compiler=t["compiler"], shots=t["shots"], cutoff_dim=t["cutoff_dim"])
            except Exception as e:
                rep.observe("compile-rejected:" + type(e).__name__)
                case = dict(case, target=None)
                P = build(env, case)
        feats = any(c.get("dag") or c.get("sym") or c.get("kw") or any(isinstance(x, dict) for x in c["p"]) for c in case["cmds"])
        if case.get("embed"):
            rep.observe("register:sparse-embedding")
            rep.seen("digits-of-largest-subsystem-index", str(len(str(max(case["embed"])))))
            if any(c.get("sym", {}).get("kind") == "meas" and case["embed"][c["sym"]["mode"]] >= 10 for c in case["cmds"]):
                rep.observe("measured-parameter-of-subsystem>=10")
        rep.case([rnd(case["cmds"], 5), fmt, case.get("target"), case.get("hbar"), case.get("embed")], len(case["cmds"]) >= 3 and feats,
                 sample={k: v for k, v in case.items()} if rep.evaluations % 149 == 11 else None)
        rep.monitor("roundtrip:" + ("xir" if fmt.startswith("xir") else "blackbird"))
        if fmt.endswith("file"):
            rep.monitor("roundtrip:file")
        try:
            Q = roundtrip(env, P, fmt)
        except Exception as e:
            import traceback

            tb = traceback.extract_tb(e.__traceback__)
            origin = tb[-1].filename if tb else ""
            sf_frames = [f for f in tb if "/strawberryfields/" in f.filename]
            third = ("/site-packages/blackbird/" in origin or "/site-packages/xir/" in origin or "/site-packages/lark/" in origin)
            where = "%s:%s" % (sf_frames[-1].filename.split("/strawberryfields/")[-1], sf_frames[-1].name) if sf_frames else "?"
            if isinstance(e, NotImplementedError) and "cannot be serialized" in str(e):
                # documented limitation of the writers: the inverse of Fouriergate / MZgate / sMZgate has no representation
                rep.observe("documented-limitation:" + str(e)[:60])
                return
            if any("sympify" in f.name or "parse_expr" in f.name for f in tb) and fmt.startswith("xir"):
                # the XIR grammar (third party) hands function expressions such as -sin(b) back in pieces
                third = True
            if third:
                # raised inside the third-party blackbird / xir packages (outside the repository under test)
                rep.observe("third-party-serializer-raised:%s:%s" % (type(e).__name__, where))
                rep.seen("third-party-failures", "%s %s: %s" % (fmt, type(e).__name__, str(e)[:80]))
                return
            kind = "exception:" + type(e).__name__
            V(kind, "round trip raised %s in %s: %s" % (type(e).__name__, where, str(e)[:160]))
            return
        if not compare(env, P, Q, rep, V):
            return
        names = {type(c.op).__name__ for c in P.circuit}
        if names <= GAUSSIAN_RUNNABLE and not any(c["op"] in ("MeasureFock", "MeasureThreshold") for c in case["cmds"]):
            args = {"a": 0.31, "b": -0.12, "theta": 0.44}
            try:
                s1 = execute(env, P, args)
                s2 = execute(env, Q, args)
            except Exception as e:
                rep.observe("execution-raised:" + type(e).__name__)
                return
            rep.monitor("execution:compared")
            if len(s1[0]) != len(s2[0]):
                # neither format stores the register size: trailing unused modes are not re-created (they are in vacuum)
                rep.observe("register-size-not-stored")
                k1, k2 = len(s1[0]) // 2, len(s2[0]) // 2
                k = min(k1, k2)
                i1 = list(range(k)) + [k1 + j for j in range(k)]
                i2 = list(range(k)) + [k2 + j for j in range(k)]
                s1 = (s1[0][i1], s1[1][np.ix_(i1, i1)])
                s2 = (s2[0][i2], s2[1][np.ix_(i2, i2)])
            d = max(np.max(np.abs(s1[0] - s2[0])), np.max(np.abs(s1[1] - s2[1])))
            if d > 1e-9:
                V("executed-state", "the loaded program computes a different state (max diff %.3e)" % d)
    finally:
        sf.hbar = 2


TDM_SLOTS = [("Sgate", 2, 1), ("Sgate", 2, 0), ("Rgate", 1, 0), ("BSgate", 2, 0), ("BSgate", 2, 1), ("Dgate", 2, 1), ("Dgate", 2, 0),
             ("Zgate", 1, 0), ("MZgate", 2, 0), ("MZgate", 2, 1)]
TDM_TWO = ("BSgate", "MZgate")


def tdm_cases(env, rep, rng, ncases):
    """TDM programs with 1-13 per-time-bin parameter arrays (two-digit array numbers: p10 sorts before p2 as text), one or two
    loops, every array used by some gate or by the measurement, arrays with repeated / equal contents (a permutation of
    equal arrays is invisible, a permutation of distinct ones is not)."""
    off = int(rng.integers(8))
    for i in range(ncases):
        nbins = int(rng.integers(2, 6))
        k = int([3, 11, 1, 12, 2, 13, 5, 10][(i + off) % 8])
        arrs = [[float(x) for x in np.round(rng.uniform(-1, 1, nbins), int(rng.integers(2, 12)))] for _ in range(k)]
        N = [[2], [1, 2], [3], [1]][int(rng.integers(4))] if i % 3 else [2]
        conc = sum(N)
        fmt = ["blackbird", "xir"][i % 2]
        plan_ = []
        for j in range(k):
            nm, npar, slot = TDM_SLOTS[int(rng.integers(len(TDM_SLOTS)))]
            if nm in TDM_TWO and conc < 2:
                nm, npar, slot = "Rgate", 1, 0
            modes = [int(x) for x in rng.choice(conc, 2 if nm in TDM_TWO else 1, replace=False)]
            plan_.append([nm, npar, slot, modes, float(np.round(rng.uniform(0.1, 0.9), 3))])
        meas_par = int(rng.integers(k))
        case = {"tdm": True, "arrays": arrs, "format": fmt, "N": N, "plan": plan_, "meas": meas_par}
        rep.case(["tdm", rnd(arrs, 5), fmt, N, plan_, meas_par], True)
        rep.observe("tdm.arrays:%d" % k)
        rep.observe("tdm.loops:%d" % len(N))
        run_tdm_case(env, rep, case)


def run_tdm_case(env, rep, case):
    sf, ops = env["sf"], env["ops"]
    arrs, fmt, N, plan_, meas_par = case["arrays"], case["format"], case["N"], case["plan"], case["meas"]
    for _once in (0,):
        prog = sf.TDMProgram(N=N if len(N) > 1 else N[0])
        with prog.context(*arrs) as (p, q):
            for j, (nm, npar, slot, modes, other) in enumerate(plan_):
                par = [other] * npar
                par[slot] = p[j]
                getattr(ops, nm)(*par) | tuple(q[m] for m in modes)
            ops.MeasureHomodyne(p[meas_par]) | q[0]
        rep.monitor("roundtrip:tdm")
        V = lambda kind, what: rep.violation(("xir" if fmt == "xir" else "blackbird") + "_io", "tdm:" + kind, "[tdm %s] %s" % (fmt, what), case)
        try:
            text = sf.io.to_xir(prog).serialize() if fmt == "xir" else sf.io.to_blackbird(prog).serialize()
            Q = sf.io.loads(text, ir=fmt)
        except Exception as e:
            V("exception:" + type(e).__name__, "round trip raised %s: %s" % (type(e).__name__, str(e)[:150]))
            continue
        if not isinstance(Q, sf.TDMProgram):
            V("type", "a TDMProgram is read back as %s" % type(Q).__name__)
            continue
        used = 1 + max(r.ind for c in prog.rolled_circuit for r in c.reg)
        if fmt == "blackbird" and Q.timebins == prog.timebins and list(Q.N) == [used] and list(prog.N) != [used]:
            # recorded finding: Blackbird TDM text has no field for the loop structure; the reader rebuilds a single loop
            # over (highest mode index used) + 1 concurrent modes.  Everything else is still compared below.
            V("loop-structure-not-stored", "N %s -> %s (timebins %s kept)" % (prog.N, Q.N, prog.timebins))
        elif list(Q.N) != list(prog.N) or Q.timebins != prog.timebins:
            V("layout", "N %s -> %s, timebins %s -> %s" % (prog.N, Q.N, prog.timebins, Q.timebins))
            continue
        a = [np.asarray(x, dtype=float) for x in prog.tdm_params]
        b = [np.asarray(x, dtype=float) for x in Q.tdm_params]
        if len(a) != len(b) or any(x.shape != y.shape or not np.allclose(x, y, atol=1e-12) for x, y in zip(a, b)):
            V("parameter-arrays", "per-time-bin parameter arrays differ after the round trip")
            continue
        if [(type(c.op).__name__, [r.ind for r in c.reg], [str(x) for x in c.op.p]) for c in prog.rolled_circuit] != \
                [(type(c.op).__name__, [r.ind for r in c.reg], [str(x) for x in c.op.p]) for c in Q.rolled_circuit]:
            V("circuit", "rolled circuit differs: %s -> %s" % (
                [(type(c.op).__name__, [r.ind for r in c.reg], [str(x) for x in c.op.p]) for c in prog.rolled_circuit],
                [(type(c.op).__name__, [r.ind for r in c.reg], [repr(x) for x in c.op.p]) for c in Q.rolled_circuit]))


# ---------------------------------------------------------------------------------------------------------------------
# code generation: sf.io.generate_code(prog) -> Python source -> exec -> program
# ---------------------------------------------------------------------------------------------------------------------

PI12 = np.pi / 12


def gen_codegen_case(rng):
    """Programs of the domain generate_code documents: numeric scalar parameters only (many of them at, one rounding step
    below / above, or near multiples of pi/12, which the generator writes as fractions of np.pi), dagger forms, measurements
    with post-selection and dark counts."""
    n = int(rng.integers(1, 5))

    def val():
        r = rng.random()
        k = int(rng.integers(-14, 15))
        if r < 0.25:
            return float(k * PI12)
        if r < 0.4:
            return float(np.nextafter(k * PI12, -np.inf if rng.random() < 0.5 else np.inf))
        if r < 0.5:
            return float(k * PI12 * (1 + rng.choice([-1, 1]) * 10.0 ** -rng.integers(7, 12)))
        if r < 0.6:
            return float(k * PI12 + rng.choice([-1, 1]) * 3e-4)
        return float(np.round(rng.uniform(-1.5, 1.5), int(rng.integers(2, 9))))

    cmds = []
    for _ in range(int(rng.integers(2, 8))):
        r = rng.random()
        if r < 0.45:
            nm = str(rng.choice(["Sgate", "Rgate", "Dgate", "Xgate", "Zgate", "Pgate", "Kgate", "Vgate"]))
            m = [int(rng.integers(n))]
        elif r < 0.7 and n >= 2:
            nm = str(rng.choice(["BSgate", "S2gate", "CXgate", "CZgate", "CKgate", "MZgate"]))
            m = [int(x) for x in rng.choice(n, 2, replace=False)]
        elif r < 0.85:
            nm = str(rng.choice(["Coherent", "Squeezed", "Thermal", "LossChannel", "Vacuum"]))
            m = [int(rng.integers(n))]
        else:
            nm, m = "Rgate", [int(rng.integers(n))]
        k = NARGS.get(nm, {"Kgate": 1, "Vgate": 1, "CKgate": 1}.get(nm, 0))
        p = [val() for _ in range(k)]
        if nm in ("Thermal", "LossChannel"):
            p = [float(np.round(rng.uniform(0.1, 0.9), 6))]
        if nm in ("Coherent", "Dgate"):
            p[0] = abs(p[0])
        cmds.append({"op": nm, "p": p, "m": m, "dag": bool(nm.endswith("gate") and nm != "Fouriergate" and rng.random() < 0.3)})
    kind = str(rng.choice(["none", "homodyne", "homodyne-select", "fock", "fock-select", "fock-dark", "heterodyne-select"]))
    m = int(rng.integers(n))
    if kind.startswith("homodyne"):
        c = {"op": "MeasureHomodyne", "p": [val()], "m": [m], "dag": False}
        if kind.endswith("select"):
            c["kw"] = {"select": float(rng.choice([0.0, float(np.round(rng.uniform(-1, 1), 5))]))}
        cmds.append(c)
    elif kind.startswith("fock"):
        k = int(rng.integers(1, n + 1))
        modes = [int(x) for x in rng.choice(n, k, replace=False)]
        c = {"op": "MeasureFock", "p": [], "m": modes, "dag": False}
        if kind == "fock-select":
            c["kw"] = {"select": [int(x) for x in rng.integers(0, 3, k)]}
        elif kind == "fock-dark":
            c["kw"] = {"dark_counts": [float(np.round(x, 4)) for x in rng.uniform(0.1, 0.9, k)]}
        cmds.append(c)
    elif kind == "heterodyne-select":
        cmds.append({"op": "MeasureHeterodyne", "p": [], "m": [m], "dag": False,
                     "kw": {"select": enc(complex(0, 0) if rng.random() < 0.3 else complex(np.round(rng.normal(0, 0.5), 4), np.round(rng.normal(0, 0.5), 4)))}})
    return {"codegen": True, "n": n, "cmds": cmds, "with_engine": bool(rng.random() < 0.3)}


def run_codegen_case(case, rep, env):
    sf, ops = env["sf"], env["ops"]
    V = lambda kind, what: rep.violation("generate_code", kind, what, case)
    P = build(env, case)
    feats = any(c.get("dag") or c.get("kw") for c in case["cmds"])
    rep.case(["codegen", rnd(case["cmds"], 9)], len(case["cmds"]) >= 2 and feats)
    eng = sf.Engine("gaussian") if case["with_engine"] else None
    rep.monitor("codegen:generated")
    try:
        code = sf.io.generate_code(P, eng)
    except Exception as e:
        V("exception:" + type(e).__name__, "generate_code raised %s: %s" % (type(e).__name__, str(e)[:120]))
        return
    # (the generated text uses np.pi without importing numpy, exactly as the documented example does: numpy is provided)
    ns = {"np": np}
    body = code.replace("\nresults = eng.run(prog)", "\n")
    try:
        exec(compile(body, "<generated>", "exec"), ns)
        Q = ns["prog"]
    except Exception as e:
        V("generated-code-does-not-run:" + type(e).__name__, "the generated code raised %s: %s\n%s" % (type(e).__name__, str(e)[:100], code[-400:]))
        return
    rep.monitor("codegen:compared")
    if Q.num_subsystems != P.num_subsystems:
        V("register-size", "Program(%d) generated for a program with %d subsystems" % (Q.num_subsystems, P.num_subsystems))
        return
    if len(Q.circuit) != len(P.circuit):
        V("length", "%d commands generated for %d" % (len(Q.circuit), len(P.circuit)))
        return
    for i, (a, b) in enumerate(zip(P.circuit, Q.circuit)):
        an = type(a.op).__name__
        if an != type(b.op).__name__ or [r.ind for r in a.reg] != [r.ind for r in b.reg]:
            V("operation", "command %d: %s on %s became %s on %s" % (i, an, [r.ind for r in a.reg], type(b.op).__name__, [r.ind for r in b.reg]))
            return
        if bool(getattr(a.op, "dagger", False)) != bool(getattr(b.op, "dagger", False)):
            V("dagger-lost", "command %d %s: dagger %s became %s" % (i, an, getattr(a.op, "dagger", False), getattr(b.op, "dagger", False)))
            return
        for k, (x, y) in enumerate(zip(a.op.p, b.op.p)):
            x, y = complex(x), complex(y)
            near = abs(x.real / PI12 - round(x.real / PI12)) < 1e-4
            # values that np.isclose (rtol 1e-5, atol 1e-8) takes for a multiple of pi/12 are written as that multiple on
            # purpose ("factor out pi"): up to 2.7e-6 of deliberate rounding; everything else is written with repr precision
            if abs(x - y) > (5e-6 if near else 1e-12 * (1 + abs(x))):
                kind = "parameter"
                if near:
                    kind = "parameter:near-multiple-of-pi/12"
                V(kind, "command %d %s: parameter %d = %r was written so that it reads back as %r" % (i, an, k, x.real, y.real))
                return
        for attr in ("select", "dark_counts"):
            x, y = getattr(a.op, attr, None), getattr(b.op, attr, None)
            if (x is None) != (y is None) or (x is not None and not np.allclose(np.asarray(x, dtype=complex), np.asarray(y, dtype=complex), atol=1e-12)):
                V("measurement-option-lost:" + attr, "command %d %s: %s = %r became %r" % (i, an, attr, x, y))
                return


def plan(tier, seed, scale=1.0):
    n = int((300 if tier == "quick" else 12000) * scale)
    return [{"n": n, "timeout": 6000} for _ in range(16)]


def run_shard(shard, rep):
    env = load()
    rng = np.random.default_rng([shard["seed"], shard["id"], 14])
    for _ in range(shard["n"]):
        case = gen_case(rng)
        try:
            run_case(case, rep, env)
        except Exception as e:
            rep.error("run_case", e)
    try:
        tdm_cases(env, rep, rng, 6 if shard.get("tier") == "quick" else 32)
    except Exception as e:
        rep.error("tdm", e)
    for _ in range(max(10, shard["n"] // 5)):
        case = gen_codegen_case(rng)
        try:
            run_codegen_case(case, rep, env)
        except Exception as e:
            rep.error("codegen", e)


def replay(case, rep):
    env = load()
    if case.get("tdm"):
        run_tdm_case(env, rep, case)
    elif case.get("codegen"):
        run_codegen_case(case, rep, env)
    else:
        run_case(case, rep, env)
