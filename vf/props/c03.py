"""C03 — circuit optimization never changes what a program computes.

Monitors
 (i)   every `merge` call (class attributes of Gate/Channel/Preparation/Decomposition/Measurement are wrapped):
       the returned operation must be the composition "self then other" under the reference semantics
       (RefGauss affine maps; one-parameter-group law for the Fock-only gates K, V, CK), None only for identity;
       self/other must not be modified.
 (ii)  every optimize_circuit return (reached through Program.optimize() and compile(optimize=True)):
       exactly-once accounting of the input commands through the recorded merge events, no dependency path
       between two merged commands, dependency order preserved, net action of source == optimized (Gaussian
       programs), and execution equality on the real gaussian backend under a scripted RNG for programs with
       measurements and measured parameters.
 (iii) deep snapshot of the source program before/after.
"""
import copy
import itertools

import numpy as np

from ..common import setup_paths, rnd
from ..instrument import RandomTap, CommandTap
from .. import refgauss as rg, gen

PROPERTY = "C03"
RULE = ("seeded programs of 1-4 modes built around runs of 2-4 same-wire operations of every family pair (same family, "
        "with/without dagger, equal and different tail parameters, sums that are exactly the neutral element, symbolic "
        "free and measured parameters), interleaved with commands on other wires, two-mode gates and measurements; plus "
        "an exhaustive sweep over all ordered pairs of operation classes x dagger flags for the merge oracle. "
        "non-trivial = at least one merge call returned without MergeFailure; distinct = rounded program spec.")
ASSUMPTIONS = [
    "reference semantics of a single operation: RefGauss for Gaussian operations, the one-parameter-group law "
    "U(p)U(q)=U(p+q) of the documented operators exp(i p G) for Kgate, Vgate, CKgate",
    "multi-mode Decomposition operations are interpreted through the net action of their own decomposition (C02 "
    "checks that decomposition against the documented transformation)",
    "a merged command may replace two commands only if no other command lies on a dependency path between them",
]
REQUIRED_MONITORS = ["merge:returned", "merge:composition-checked", "optimize:accounting", "optimize:net-action",
                     "optimize:execution", "immutability", "pair-sweep", "merge:measured-dependencies",
                     "merge:decomposition-of-result"]

ONE_GATES = ["Dgate", "Xgate", "Zgate", "Sgate", "Rgate", "Pgate", "Kgate", "Vgate", "Fouriergate"]
TWO_GATES = ["BSgate", "S2gate", "CXgate", "CZgate", "CKgate", "MZgate", "sMZgate"]
CHANNELS = ["LossChannel", "ThermalLossChannel", "MSgate"]
PREPS = ["Vacuum", "Coherent", "Squeezed", "DisplacedSqueezed", "Thermal", "Fock"]
NARGS = {"Dgate": 2, "Xgate": 1, "Zgate": 1, "Sgate": 2, "Rgate": 1, "Pgate": 1, "Kgate": 1, "Vgate": 1,
         "Fouriergate": 0, "BSgate": 2, "S2gate": 2, "CXgate": 1, "CZgate": 1, "CKgate": 1, "MZgate": 2, "sMZgate": 2,
         "LossChannel": 1, "ThermalLossChannel": 2, "MSgate": 4, "Vacuum": 0, "Coherent": 2, "Squeezed": 2,
         "DisplacedSqueezed": 4, "Thermal": 1, "Fock": 1}
PHASE_GATES = {"Kgate", "Vgate", "CKgate"}


class Ctx:
    def __init__(self, rep):
        setup_paths()
        import strawberryfields as sf
        from strawberryfields import ops
        import strawberryfields.program_utils as pu
        import sympy
        from .. import sfutil

        self.sf, self.ops, self.pu, self.sympy, self.sfutil = sf, ops, pu, sympy, sfutil
        self.rep = rep
        self.merge_log = []
        self.case = None
        ctx = self
        for cls in (ops.Gate, ops.Channel, ops.Preparation, ops.Decomposition, ops.Measurement):
            orig = cls.__dict__["merge"]

            def mk(orig):
                def merge(self_op, other):
                    snap = (op_snapshot(self_op), op_snapshot(other))
                    try:
                        r = orig(self_op, other)
                    except pu.MergeFailure:
                        rep.observe("merge.failure:%s+%s" % (type(self_op).__name__, type(other).__name__))
                        raise
                    rep.monitor("merge:returned")
                    ctx.merge_log.append((self_op, other, r))
                    ctx.check_merge(self_op, other, r, snap)
                    return r
                return merge
            cls.merge = mk(orig)
        orig_opt = pu.optimize_circuit

        def optimize_circuit(seq):
            seq_in = list(seq)
            start = len(ctx.merge_log)
            out = orig_opt(seq)
            ctx.check_optimize(seq_in, out, ctx.merge_log[start:])
            return out

        pu.optimize_circuit = optimize_circuit

    # ---- symbolic evaluation independent of par_evaluate -------------------------------------------
    def num(self, x, binding):
        sympy = self.sympy
        if isinstance(x, np.ndarray) and x.dtype == object:
            return np.array([self.num(v, binding) for v in x.ravel()]).reshape(x.shape)
        if isinstance(x, sympy.Basic):
            subs = {}
            for a in x.free_symbols:
                key = str(a)
                if key not in binding:
                    binding[key] = 0.1 + 0.07 * (len(binding) + 1)
                subs[a] = binding[key]
            v = complex(x.subs(subs).evalf())
            return v.real if abs(v.imag) < 1e-15 else v
        return x

    def op_action(self, op, binding):
        """Reference action of an operation: ("affine", X, Y, d) | ("phase", class, p_eff) | ("prep-fock", n)
        | ("opaque", ...)."""
        name = type(op).__name__
        p = [self.num(x, binding) for x in op.p]
        dag = bool(getattr(op, "dagger", False))
        ns = op.ns if op.ns is not None else 1
        if name in PHASE_GATES:
            return ("phase", name, (-1 if dag else 1) * float(p[0]))
        if name == "Fock":
            return ("prep-fock", int(p[0]))
        if name in ("Interferometer", "GaussianTransform", "GraphEmbed", "BipartiteGraphEmbed", "Gaussian") and \
                name not in ("Interferometer", "GaussianTransform"):
            regs = [self.pu.RegRef(i) for i in range(ns)]
            cmds = self.decompose_fully(op, regs)
            return ("affine",) + rg.net_action([self.sfutil.cmd_tuple(c) for c in cmds], ns)
        if name == "MSgate":
            p = [float(p[0]), float(p[1]), float(p[2]), float(p[3])]
            if not op.p[4]:
                return ("opaque", name)
        try:
            return ("affine",) + rg.net_action([(name, p, list(range(ns)), dag)], ns)
        except KeyError:
            return ("opaque", name)

    def decompose_fully(self, op, regs):
        out = []
        for c in op.decompose(regs):
            try:
                if type(c.op).__name__ in ("Interferometer", "GaussianTransform"):
                    out.append(c)
                else:
                    sub = c.op.decompose(c.reg)
                    out.extend(sub)
            except NotImplementedError:
                out.append(c)
        return out

    def check_merge(self, a, b, r, snap):
        rep = self.rep
        an, bn = type(a).__name__, type(b).__name__
        fam = "%s+%s" % (an, bn)
        rep.observe("merge.%s:%s" % ("cancelled" if r is None else "merged", fam))
        rep.seen("merge-family-pairs", fam + (":H" if getattr(a, "dagger", False) else "") +
                 (":H2" if getattr(b, "dagger", False) else ""))
        case = {"merge": True, "a": describe(a), "b": describe(b), "r": describe(r), "program": self.case}
        if (op_snapshot(a), op_snapshot(b)) != snap:
            rep.violation(an + ".merge", "modifies-operand", "merge changed one of its operands: %s / %s" % (
                describe(a), describe(b)), case)
        if r is not None:
            # the merged operation must depend on every measurement its parameters depend on (the optimizer and the
            # DAG conversions order commands by Command.get_dependencies, which reads Operation.measurement_deps)
            need = set()
            for x in r.p:
                for v in (x.ravel() if isinstance(x, np.ndarray) and x.dtype == object else [x]):
                    if isinstance(v, self.sympy.Basic):
                        need |= {sym.regref.ind for sym in v.free_symbols if hasattr(sym, "regref")}
            if need:
                rep.monitor("merge:measured-dependencies")
                have = {q.ind for q in r.measurement_deps}
                if not need <= have:
                    rep.violation(an + ".merge", "measured-dependency-lost", "%s merged with %s gives %s, whose parameters depend on "
                                  "measurements of subsystems %s but whose measurement_deps are %s" % (
                                      describe(a), describe(b), describe(r), sorted(need), sorted(have)), case)
        if isinstance(a, self.ops.Measurement) or isinstance(b, self.ops.Measurement):
            rep.violation(an + ".merge", "merges-measurement", "a measurement was merged: %s, %s -> %s" % (
                describe(a), describe(b), describe(r)), case)
            return
        binding = {}
        try:
            A = self.op_action(a, binding)
            B = self.op_action(b, binding)
            R = ("identity",) if r is None else self.op_action(r, binding)
        except Exception as e:
            rep.error("op_action", e)
            return
        if r is not None and type(r).__name__ in ("Interferometer", "GaussianTransform") and R[0] == "affine":
            # what runs is the decomposition of the merged operation, not its matrix parameter: the two must agree
            # (constructors cache Bloch-Messiah factors / identity flags that a copied object would carry along)
            rep.monitor("merge:decomposition-of-result")
            try:
                ns_ = r.ns if r.ns is not None else len(np.atleast_2d(r.p[0])) // (2 if type(r).__name__ == "GaussianTransform" else 1)
                regs = [self.pu.RegRef(i) for i in range(ns_)]
                D_ = ("affine",) + rg.net_action([self.sfutil.cmd_tuple(c) for c in self.decompose_fully(r, regs)], ns_)
                okd, whyd = composition_ok(("affine", np.eye(2 * ns_), np.zeros((2 * ns_, 2 * ns_)), np.zeros(2 * ns_)), R, D_, tol=1e-7)
                if not okd:
                    rep.violation(an + ".merge", "result-decomposes-differently", "%s then %s merged into %s, whose decomposition does not "
                                  "implement its own matrix: %s" % (describe(a), describe(b), describe(r), whyd), case)
                    return
            except Exception as e:
                rep.error("merge.decomposition-of-result", e)
        if "opaque" in (A[0], B[0], R[0]):
            rep.observe("merge.unchecked-opaque:" + fam)
            return
        rep.monitor("merge:composition-checked")
        ok, why = composition_ok(A, B, R)
        if not ok:
            kind = "merge-not-composition"
            if r is None:
                kind = "cancels-non-identity"
            rep.violation(an + ".merge", kind, "%s then %s merged into %s: %s" % (
                describe(a), describe(b), describe(r), why), case)

    def check_optimize(self, seq_in, out, merges):
        rep = self.rep
        rep.monitor("optimize:accounting")
        case = {"program": self.case}
        ids_in = {id(c): i for i, c in enumerate(seq_in)}
        # constituents of every command: input commands map to themselves; a command whose op is a merge
        # result maps to the union of the constituents of the merged ops
        op_const = {id(c.op): {i} for i, c in enumerate(seq_in)}
        shared_ops = len(op_const) != len(seq_in)
        consumed = []
        for a, b, r in merges:
            ca, cb = op_const.get(id(a)), op_const.get(id(b))
            if ca is None or cb is None:
                rep.observe("optimize.merge-of-unknown-op")
                continue
            consumed.append((ca, cb, r))
            if r is not None:
                if r is a or r is b:
                    # Preparation.merge returns `other` itself
                    op_const[id(r)] = ca | cb
                else:
                    op_const[id(r)] = ca | cb
        if shared_ops:
            rep.observe("optimize.shared-op-objects")
        cover = []
        for c in out:
            if id(c) in ids_in and not any(id(c.op) == id(r) for _, _, r in merges if r is not None):
                cover.append({ids_in[id(c)]})
            else:
                cc = op_const.get(id(c.op))
                if cc is None:
                    rep.violation("optimize_circuit", "unknown-command", "output contains a command that is neither "
                                  "an input command nor a recorded merge result: %s" % c, case)
                    return
                cover.append(set(cc))
        cancelled = set()
        for ca, cb, r in consumed:
            if r is None:
                cancelled |= ca | cb
        count = {}
        for s in cover:
            for i in s:
                count[i] = count.get(i, 0) + 1
        dup = sorted(i for i, k in count.items() if k > 1)
        if not shared_ops:
            if dup:
                rep.violation("optimize_circuit", "command-duplicated",
                              "input commands %s are represented more than once in the optimized circuit: %s" % (
                                  dup, [str(c) for c in out]), case)
            missing = sorted(set(range(len(seq_in))) - set(count) - cancelled)
            if missing:
                rep.violation("optimize_circuit", "command-dropped", "input commands %s (%s) vanished without a "
                              "cancelling merge" % (missing, [str(seq_in[i]) for i in missing]), case)
            resurrect = sorted(set(count) & cancelled)
            if resurrect:
                rep.violation("optimize_circuit", "cancelled-command-present", "commands %s were cancelled by a merge but "
                              "are still represented in the output" % resurrect, case)
        # dependency path between merged constituents / order preservation
        deps = [cmd_deps(c) for c in seq_in]
        n = len(seq_in)
        reach = [[False] * n for _ in range(n)]
        for j in range(n):
            for i in range(j):
                if deps[i] & deps[j]:
                    reach[i][j] = True
        for k in range(n):
            for i in range(k):
                if reach[i][k]:
                    for j in range(k + 1, n):
                        if reach[k][j]:
                            reach[i][j] = True
        for s in cover:
            if len(s) > 1:
                ss = sorted(s)
                for x, y in itertools.combinations(ss, 2):
                    for k in range(x + 1, y):
                        if k not in s and k not in cancelled:
                            # a command in between matters if it acts on the merged commands' own modes, or if
                            # it is a measurement of a mode their parameters depend on (the value changes)
                            ck = seq_in[k]
                            regs_k = set(r.ind for r in ck.reg)
                            own = set(r.ind for r in seq_in[x].reg) | set(r.ind for r in seq_in[y].reg)
                            mdep = set(r.ind for r in seq_in[x].op.measurement_deps) | \
                                set(r.ind for r in seq_in[y].op.measurement_deps)
                            blocking = bool(regs_k & own) or (isinstance(ck.op, self.ops.Measurement) and bool(regs_k & mdep))
                            if blocking:
                                rep.violation("optimize_circuit", "merge-across-dependency",
                                              "commands %d and %d were merged although command %d (%s) lies between them "
                                              "on one of their modes or re-measures a mode they depend on" % (
                                                  x, y, k, seq_in[k]), case)
        pos = {}
        for k, s in enumerate(cover):
            for i in s:
                pos.setdefault(i, k)
        for i in range(n):
            for j in range(i + 1, n):
                if deps[i] & deps[j] and i in pos and j in pos and pos[i] > pos[j]:
                    rep.violation("optimize_circuit", "dependency-order", "commands %d and %d share a dependency but "
                                  "were reordered" % (i, j), case)
                    return


def cmd_deps(c):
    d = set(r.ind for r in c.reg)
    d |= set(r.ind for r in c.op.measurement_deps)
    return d


def op_snapshot(op):
    if op is None:
        return None
    ps = []
    for x in op.p:
        if isinstance(x, np.ndarray):
            ps.append(("arr", x.shape, x.tobytes() if x.dtype != object else str(x.tolist())))
        else:
            ps.append(("v", id(x), str(x)))
    return (type(op).__name__, id(op.p), tuple(ps), bool(getattr(op, "dagger", False)),
            getattr(op, "select", None) if not isinstance(getattr(op, "select", None), np.ndarray) else None)


def describe(op):
    if op is None:
        return "None(identity)"
    try:
        return str(op)
    except Exception:
        return type(op).__name__


def composition_ok(A, B, R, tol=1e-9):
    """R must equal 'A then B'."""
    if A[0] == "phase" and B[0] == "phase":
        if A[1] != B[1]:
            return False, "different families merged"
        tot = A[2] + B[2]
        if R[0] == "identity":
            return (abs(tot) <= 1e-12, "parameters sum to %r, not the neutral element" % tot)
        if R[0] != "phase" or R[1] != A[1]:
            return False, "result is not of the same family"
        return (abs(R[2] - tot) <= tol * (1 + abs(tot)), "effective parameter %r, composition needs %r" % (R[2], tot))
    if A[0] == "prep-fock" or B[0] == "prep-fock":
        # second preparation wins
        if B[0] == "prep-fock":
            return (R == B, "second preparation must win")
        return (R[0] == B[0] and all(np.allclose(x, y) for x, y in zip(R[1:], B[1:])), "second preparation must win")
    if A[0] != "affine" or B[0] != "affine":
        return False, "cannot compose %s with %s" % (A[0], B[0])
    XA, YA, dA = A[1:]
    XB, YB, dB = B[1:]
    if XA.shape != XB.shape:
        return False, "operands act on a different number of modes"
    X = XB @ XA
    Y = XB @ YA @ XB.T + YB
    d = XB @ dA + dB
    if R[0] == "identity":
        n = X.shape[0]
        XR, YR, dR = np.eye(n), np.zeros((n, n)), np.zeros(n)
    elif R[0] == "affine":
        XR, YR, dR = R[1:]
        if XR.shape != X.shape:
            return False, "result acts on a different number of modes"
    else:
        return False, "result is not an affine map"
    err = max(np.max(np.abs(X - XR)), np.max(np.abs(Y - YR)), np.max(np.abs(d - dR)))
    scale = 1 + max(np.max(np.abs(X)), np.max(np.abs(Y)), np.max(np.abs(d)))
    # (strongly squeezing operands: products of matrices with entries e^{r} lose relative accuracy in proportion to their
    # condition number ~ scale^2, e.g. Sgate(2 pi) then Sgate(pi))
    return (err <= tol * scale * max(1.0, scale), "reference composition differs from the merged operation by %.3e" % err)


# ---- program generation ---------------------------------------------------------------------------

def rand_p(rng, name, like=None, neutral_of=None):
    k = NARGS[name]
    if name == "LossChannel":
        return [gen.transmissivity(rng) if rng.random() < 0.5 else float(rng.uniform(0.3, 1.0))]
    if name == "ThermalLossChannel":
        nb = float(rng.choice([0.0, 0.3, 0.7]))
        return [float(rng.uniform(0.3, 1.0)), nb]
    if name == "MSgate":
        return [float(rng.uniform(0.1, 0.6)), float(rng.choice([0.0, 0.4])), float(rng.choice([1.0, 1.5])),
                float(rng.choice([1.0, 0.9]))]
    if name == "Thermal":
        return [float(rng.uniform(0, 1))]
    if name == "Fock":
        return [int(rng.integers(0, 3))]
    p = []
    for i in range(k):
        if i == 0:
            v = float(rng.choice([0.0, 0.25, -0.25, 0.5, np.pi / 2, np.pi, rng.uniform(-1, 1)]))
        else:
            v = float(rng.choice([0.0, 0.3, 0.3, np.pi / 2, rng.uniform(0, 2)]))
        p.append(v)
    return p


def gen_program(rng):
    n = int(rng.integers(1, 5))
    cmds = []
    nruns = int(rng.integers(1, 5))
    use_sym = rng.random() < 0.3
    use_meas = rng.random() < 0.3 and n >= 2
    measured = []
    for _ in range(nruns):
        # a run of 2-4 operations on the same wire(s)
        r = rng.random()
        runlen = int(rng.integers(2, 5))
        if r < 0.5 or n < 2:
            m = [int(rng.integers(n))]
            pool = ONE_GATES + CHANNELS[:2] + PREPS[:5]
            fam = str(rng.choice(pool))
        else:
            a, b = (int(x) for x in rng.choice(n, 2, replace=False))
            m = [a, b]
            fam = str(rng.choice(TWO_GATES))
        base = rand_p(rng, fam)
        for j in range(runlen):
            name = fam if rng.random() < 0.8 else str(rng.choice(ONE_GATES if len(m) == 1 else TWO_GATES))
            p = rand_p(rng, name)
            if name == fam and rng.random() < 0.7 and len(p) > 1:
                p[1:] = base[1:]
            if name == fam and j > 0 and rng.random() < 0.3 and NARGS[name] >= 1 and name not in CHANNELS + PREPS:
                # exact cancellation of the previous first parameter
                prev = cmds[-1]
                if prev["op"] == name and prev["m"] == m:
                    p[0] = -prev["p"][0] if prev.get("dag", False) == False else prev["p"][0]
                    p[1:] = prev["p"][1:]
            c = {"op": name, "p": p, "m": (m if rng.random() < 0.9 or len(m) == 1 else m[::-1]),
                 "dag": bool(name in ONE_GATES + TWO_GATES and NARGS[name] > 0 and rng.random() < 0.3)}
            if use_sym and NARGS[name] >= 1 and name not in PREPS and rng.random() < 0.4:
                c["sym"] = {"pos": 0, "name": str(rng.choice(["a", "b"])),
                            "scale": float(rng.choice([1.0, 0.5]) if name in CHANNELS else rng.choice([1.0, 2.0, -1.0]))}
            if measured and NARGS[name] >= 1 and name in ("Dgate", "Xgate", "Zgate", "Rgate", "Sgate") and \
                    rng.random() < 0.5:
                # (mostly feed-forward onto another subsystem; sometimes onto the measured subsystem itself)
                mm = [x for x in measured if x not in c["m"]] if rng.random() < 0.75 else [x for x in measured if x in c["m"]]
                if mm:
                    c["mpar"] = {"pos": 0, "mode": int(rng.choice(mm)), "scale": float(rng.choice([1.0, 0.5, -1.0]))}
                    c.pop("sym", None)
            cmds.append(c)
            # interleave something on another wire
            if rng.random() < 0.35 and n >= 2:
                others = [x for x in range(n) if x not in m]
                if others:
                    o = int(rng.choice(others))
                    nm = str(rng.choice(["Sgate", "Rgate", "Dgate"]))
                    cmds.append({"op": nm, "p": rand_p(rng, nm), "m": [o], "dag": False})
            if rng.random() < 0.15 and n >= 2:
                a, b = (int(x) for x in rng.choice(n, 2, replace=False))
                cmds.append({"op": "BSgate", "p": [0.4, 0.2], "m": [a, b], "dag": False})
        if use_meas and rng.random() < 0.6:
            cand = [x for x in range(n)]
            mm = int(rng.choice(cand))
            cmds.append({"op": "MeasureHomodyne", "p": [float(rng.choice([0.0, 0.7]))], "m": [mm], "dag": False})
            if mm not in measured:
                measured.append(mm)
    if n >= 2 and rng.random() < 0.2:
        # subsystems deleted at the end of the program (Del flags RegRefs that earlier commands hold inactive)
        for mm in sorted(int(x) for x in rng.choice(n, int(rng.integers(1, n)), replace=False)):
            cmds.append({"op": "Del", "p": [], "m": [mm], "dag": False})
    return {"n": n, "cmds": cmds}


def build(ctx, spec):
    sf, ops = ctx.sf, ctx.ops
    prog = sf.Program(spec["n"])
    with prog.context as q:
        for c in spec["cmds"]:
            p = list(c["p"])
            if "sym" in c:
                s = c["sym"]
                p[s["pos"]] = prog.params(s["name"]) * s["scale"]
            if "mpar" in c:
                s = c["mpar"]
                p[s["pos"]] = q[s["mode"]].par * s["scale"]
            if c["op"] == "Del":
                ops.Del | q[c["m"][0]]
                continue
            op = getattr(ops, c["op"])(*p)
            if c.get("dag"):
                op = op.H
            regs = tuple(q[i] for i in c["m"])
            op | (regs if len(regs) > 1 else regs[0])
    return prog


def program_snapshot(prog):
    return (id(prog.circuit), tuple((id(c), id(c.op), id(c.reg), tuple(r.ind for r in c.reg), op_snapshot(c.op))
                                    for c in prog.circuit),
            tuple((k, r.ind, r.active, None if r.val is None else float(np.real(np.ravel(r.val)[0])))
                  for k, r in prog.reg_refs.items()),
            tuple(sorted((k, str(v.val), str(v.default)) for k, v in prog.free_params.items())), prog.locked is not None)


def is_gaussian_numeric(spec):
    for c in spec["cmds"]:
        if c["op"] in PHASE_GATES or c["op"] in ("Fock", "MeasureHomodyne", "Del") or "sym" in c or "mpar" in c:
            return False
        if c["op"] == "MSgate":
            pass
    return True


def run_case(case, rep, ctx):
    spec = case
    ctx.case = spec
    ctx.merge_log.clear()
    prog = build(ctx, spec)
    before = program_snapshot(prog)
    src_tuples = None
    nmerge0 = rep.monitors.get("merge:returned", 0)
    how = case.get("how", "optimize")
    try:
        if how == "optimize":
            opt = prog.optimize()
        else:
            opt = prog.compile(compiler=how, optimize=True)
    except Exception as e:
        if how != "optimize" and type(e).__name__ in ("CircuitError", "NotImplementedError"):
            rep.observe("compile-rejected:" + type(e).__name__)
            rep.case([rnd(spec, 5)], False)
            return
        rep.violation("optimize_circuit", "exception:" + type(e).__name__, "optimization raised %s: %s" % (
            type(e).__name__, str(e)[:200]), spec)
        rep.case([rnd(spec, 5)], False)
        return
    merged = rep.monitors.get("merge:returned", 0) - nmerge0
    rep.case([rnd(spec, 5)], merged > 0, sample=spec if (merged > 0 and rep.evaluations % 150 == 3) else None)
    rep.observe("programs.%s" % ("shorter-after-optimization" if len(opt.circuit) < len(prog.circuit) else "same-length"))
    rep.monitor("immutability")
    after = program_snapshot(prog)
    if before != after:
        rep.violation("Program.optimize", "source-modified", "the source program changed while being optimized", spec)
    # ---- net action (Gaussian, numeric) -------------------------------------------------------------
    if how == "optimize" and is_gaussian_numeric(spec):
        rep.monitor("optimize:net-action")
        n = spec["n"]
        try:
            a1 = rg.net_action(ctx.sfutil.circuit_tuples(prog.circuit), n)
            a2 = rg.net_action(ctx.sfutil.circuit_tuples(opt.circuit), n)
        except Exception as e:
            rep.error("net_action", e)
            return
        err = max(np.max(np.abs(x - y)) for x, y in zip(a1, a2))
        scale = 1 + max(np.max(np.abs(x)) for x in a1)
        rep.dev("optimize.net-action", err / scale, 1e-8)
        if err > 1e-8 * scale:
            rep.violation("optimize_circuit", "net-action-changed", "net action of the optimized circuit differs from "
                          "the source by %.3e: %s -> %s" % (err, [str(c) for c in prog.circuit],
                                                            [str(c) for c in opt.circuit]), spec)
    # ---- execution under scripted RNG (measurements / measured parameters / symbols) -------------------
    elif how == "optimize" and not any(c["op"] in PHASE_GATES or c["op"] in ("Fock", "MSgate") for c in spec["cmds"]):
        st = []
        mag = [1.0]
        for which, p in (("source", prog), ("optimized", opt)):
            eng = ctx.sf.Engine("gaussian")
            occ = {}
            cur = [None]

            def pre(op, reg, backend, kwargs):
                # running magnitude of the simulator state: rounding errors of the two executions are amplified by
                # (largest covariance entry)^2 when a strongly squeezed state is conditioned on a measurement
                circ = getattr(backend, "circuit", None)
                if circ is not None and hasattr(circ, "nmat"):
                    mag[0] = max(mag[0], float(np.max(np.abs(circ.nmat))), float(np.max(np.abs(circ.mmat))),
                                 float(np.max(np.abs(circ.mean))) ** 2)
                # outcomes are scripted per (measured mode, occurrence), so that a legal reordering of
                # independent measurements does not change which outcome a measurement receives
                if isinstance(op, ctx.ops.Measurement):
                    key = tuple(r.ind for r in reg)
                    occ[key] = occ.get(key, 0) + 1
                    cur[0] = (key, occ[key])

            def script(name, a, k, real):
                if name == "np.random.multivariate_normal":
                    (key, o) = cur[0]
                    mean = np.asarray(a[0])
                    # absolute values (not relative to the conditional mean), so that two commuting
                    # measurements condition on the same pair of outcomes in either order
                    return np.array([(0.3 * o + 0.11 * key[0]) * np.array([1.0, -0.5])[: len(mean)]])
                if name == "np.random.normal":
                    return 0.123
                return NotImplemented
            tap = CommandTap()
            tap.pre.append(pre)
            try:
                with RandomTap(script), tap:
                    res = eng.run(p, args={k: v for k, v in {"a": 0.37, "b": -0.21}.items() if k in p.free_params})
                st.append((res.state.means(), res.state.cov()))
            except Exception as e:
                st.append(e)
        if isinstance(st[0], Exception) or isinstance(st[1], Exception):
            if type(st[0]) != type(st[1]):
                rep.violation("optimize_circuit", "execution-outcome-changed", "source run: %r, optimized run: %r" % (
                    st[0] if isinstance(st[0], Exception) else "ok", st[1] if isinstance(st[1], Exception) else "ok"), spec)
            else:
                rep.observe("execution.both-raised:" + type(st[0]).__name__)
        else:
            rep.monitor("optimize:execution")
            err = max(np.max(np.abs(st[0][0] - st[1][0])), np.max(np.abs(st[0][1] - st[1][1])))
            tol = 1e-8 * (1 + np.max(np.abs(st[0][1]))) + 1e-12 * mag[0] ** 2
            rep.dev("optimize.execution/tolerance", err / tol, 1.0)
            if mag[0] > 1e3:
                rep.observe("execution.ill-conditioned(|V|>1e3)")
            if err > tol:
                rep.violation("optimize_circuit", "executed-state-changed", "final state of the optimized program "
                              "differs from the source's by %.3e under identical scripted outcomes" % err, spec)


def pair_sweep(ctx, rep, rng):
    """Exhaustive: all ordered pairs of operation classes x dagger flags, merge called directly."""
    ops = ctx.ops
    names = ONE_GATES + TWO_GATES + CHANNELS + PREPS + ["Interferometer", "GaussianTransform", "PassiveChannel"]
    U = gen.haar(rng, 2)
    S = gen.random_symplectic(rng, 2, True)

    def mk(name, variant, dag):
        if name == "Interferometer":
            return ops.Interferometer(U if variant == 0 else U.conj().T)
        if name == "GaussianTransform":
            return ops.GaussianTransform(S if variant == 0 else np.linalg.inv(S))
        if name == "PassiveChannel":
            return ops.PassiveChannel(0.8 * U if variant == 0 else np.eye(2) * 0.5)
        p = {0: [0.3, 0.4, 1.2, 0.9], 1: [-0.3, 0.4, 1.2, 0.9], 2: [0.5, 0.9, 1.0, 1.0]}[variant][: NARGS[name]]
        if name in ("LossChannel", "ThermalLossChannel"):
            p = {0: [0.5, 0.3], 1: [0.8, 0.3], 2: [0.7, 0.6]}[variant][: NARGS[name]]
        if name == "Thermal":
            p = [0.4 + 0.1 * variant]
        if name == "Fock":
            p = [variant]
        op = getattr(ops, name)(*p)
        if dag and isinstance(op, ops.Gate):
            op = op.H
        return op

    for n1 in names:
        for n2 in names:
            for v1, v2 in ((0, 0), (0, 1), (0, 2)):
                for d1, d2 in ((False, False), (False, True), (True, False), (True, True)):
                    if (d1 and not hasattr(getattr(ops, n1), "H")) or (d2 and not hasattr(getattr(ops, n2), "H")):
                        continue
                    a, b = mk(n1, 0 if v1 == 0 else v1, d1), mk(n2, v2, d2)
                    ctx.case = {"pair": [n1, n2, v1, v2, d1, d2]}
                    rep.monitor("pair-sweep")
                    try:
                        a.merge(b)
                    except ctx.pu.MergeFailure:
                        pass
                    except Exception as e:
                        if getattr(a, "ns", 1) == getattr(b, "ns", 1):
                            rep.violation(n1 + ".merge", "exception:" + type(e).__name__,
                                          "%s.merge(%s) raised %s: %s" % (describe(a), describe(b), type(e).__name__,
                                                                         str(e)[:120]), ctx.case)


def measured_merge_sweep(ctx, rep, rng):
    """Direct merges in which only one operand (or each operand differently) depends on a measurement."""
    ops, sf = ctx.ops, ctx.sf
    for name in ONE_GATES + TWO_GATES + CHANNELS:
        if NARGS.get(name, 0) < 1 or name in ("MSgate", "Fouriergate"):
            continue
        for variant in range(4):
            prog = sf.Program(4)
            with prog.context as q:
                ops.MeasureX | q[2]
                ops.MeasureP | q[3]
                tail = [0.4, 1.2, 0.9][: NARGS[name] - 1]
                chan = name in CHANNELS
                num = 0.6 if chan else 0.3
                m2 = (0.5 + 0.1 * sf.math.sin(q[2].par)) if chan else 0.7 * q[2].par
                m3 = (0.5 + 0.1 * sf.math.cos(q[3].par)) if chan else -0.2 * q[3].par
                a, b = [(num, m2), (m2, num), (m2, m3), (m3, m2)][variant]
                A, B = getattr(ops, name)(a, *tail), getattr(ops, name)(b, *tail)
            ctx.case = {"measured-merge": [name, variant]}
            rep.monitor("measured-merge-sweep")
            try:
                A.merge(B)
            except ctx.pu.MergeFailure:
                pass
            except Exception as e:
                rep.violation(name + ".merge", "exception:" + type(e).__name__, "%s.merge(%s) raised %s: %s" % (
                    describe(A), describe(B), type(e).__name__, str(e)[:120]), ctx.case)


def decomposition_merge_cases(ctx, rep, rng, ncases):
    """Direct merges of matrix-valued operations (the optimizer itself only merges their one-mode forms): identity first or
    second, passive then active, cancelling pairs, generic pairs."""
    ops = ctx.ops

    def symp(kind, n):
        if kind == "identity":
            return np.eye(2 * n)
        if kind == "passive":
            return rg.interferometer_S(gen.haar(rng, n))
        if kind == "squeeze":
            r = rng.uniform(0.2, 0.8, n) * rng.choice([-1, 1], n)
            return np.diag(np.concatenate([np.exp(-r), np.exp(r)]))
        return gen.random_symplectic(rng, n, True, rng.uniform(-0.6, 0.6, n))

    def unit(kind, n):
        if kind == "identity":
            return np.eye(n, dtype=complex)
        if kind == "phases":
            return np.diag(np.exp(1j * rng.uniform(0, 6.28, n)))
        return gen.haar(rng, n)

    for _ in range(ncases):
        n = int(rng.choice([1, 1, 2, 3]))
        if rng.random() < 0.5:
            k1, k2 = (str(x) for x in rng.choice(["identity", "passive", "squeeze", "generic"], 2))
            S1, S2 = symp(k1, n), symp(k2, n)
            if rng.random() < 0.15:
                S2 = np.linalg.inv(S1)
            A, B = ops.GaussianTransform(S1), ops.GaussianTransform(S2)
            ctx.case = {"decomposition-merge": ["GaussianTransform", n, k1, k2]}
        else:
            k1, k2 = (str(x) for x in rng.choice(["identity", "phases", "haar"], 2))
            U1, U2 = unit(k1, n), unit(k2, n)
            if rng.random() < 0.15:
                U2 = U1.conj().T
            mesh = str(rng.choice(["rectangular", "triangular", "rectangular_phase_end"]))
            A, B = ops.Interferometer(U1, mesh=mesh), ops.Interferometer(U2, mesh=mesh)
            ctx.case = {"decomposition-merge": ["Interferometer", n, k1, k2, mesh]}
        rep.monitor("decomposition-merge-cases")
        try:
            A.merge(B)
        except ctx.pu.MergeFailure:
            pass
        except Exception as e:
            rep.violation(type(A).__name__ + ".merge", "exception:" + type(e).__name__, "%s.merge(%s) raised %s: %s" % (
                describe(A), describe(B), type(e).__name__, str(e)[:120]), ctx.case)


def plan(tier, seed, scale=1.0):
    n = int((500 if tier == "quick" else 9000) * scale)
    return [{"n": n, "timeout": 6000, "sweep": i == 0} for i in range(16)]


def run_shard(shard, rep):
    ctx = Ctx(rep)
    rng = np.random.default_rng([shard["seed"], shard["id"], 3])
    if shard.get("sweep"):
        pair_sweep(ctx, rep, rng)
        try:
            measured_merge_sweep(ctx, rep, rng)
        except Exception as e:
            rep.error("measured_merge_sweep", e)
    else:
        rep.monitor("pair-sweep", 0)
    try:
        decomposition_merge_cases(ctx, rep, rng, max(12, shard["n"] // 25))
    except Exception as e:
        rep.error("decomposition_merge_cases", e)
    for i in range(shard["n"]):
        spec = gen_program(rng)
        r = rng.random()
        if r < 0.12:
            spec["how"] = str(rng.choice(["gaussian", "fock", "bosonic"]))
        try:
            run_case(spec, rep, ctx)
        except Exception as e:
            rep.error("run_case", e)


def replay(case, rep):
    ctx = Ctx(rep)
    if "pair" in case or case.get("merge"):
        prog = case.get("program")
        if prog and "cmds" in prog:
            run_case(prog, rep, ctx)
        else:
            pair_sweep(ctx, rep, np.random.default_rng(0))
        return
    run_case(case, rep, ctx)
