"""C06 — measurements sample the Born distribution and condition the rest correctly.

The pre-measurement state is snapshotted at the CommandTap pre-hook; RandomTap (script mode) records the
distribution arguments a measurement hands to the RNG and returns a harness-chosen outcome, which makes the
post-measurement checks deterministic:
  (i)   RNG arguments == Born parameters of the pre-state computed by reference code (Gaussian homodyne /
        heterodyne mean and variance, the (cov, mean) handed to the Walrus samplers, the probability vector of
        Fock photon counting, the quadrature density grid of Fock homodyne);
  (ii)  post-state == reference conditional state for the outcome returned / post-selected, measured modes in
        vacuum (RefGauss Schur complement; harness projection of the recorded Fock density matrix);
  (iii) the same post-selected value gives the same conditional state on gaussian, bosonic and fock;
  (iv)  Result.samples / samples_dict / RegRef.val are laid out one row per shot, one column per measured mode in
        ascending mode order, and carry the documented hbar scaling; dark counts receive the documented rates.
A Kolmogorov-Smirnov monitor covers the part of the bosonic rejection sampler that argument inspection cannot see.
"""
import numpy as np

from ..common import setup_paths, rnd
from ..instrument import RandomTap, CommandTap
from .. import refgauss as rg, gen

PROPERTY = "C06"
RULE = ("seeded entangled / displaced / mixed pre-measurement states on 2-4 modes (fock: 2-3) followed by one measurement: "
        "homodyne at boundary and random angles, heterodyne, photon counting and threshold detection on mode subsets in "
        "ascending and non-ascending order, with and without post-selection (incl. 0 and negative values), shots in {1,2,7} "
        "where supported, hbar in {2, 0.7}, backends gaussian / bosonic / fock(pure, mixed); non-trivial = the measured "
        "modes are correlated with an unmeasured one (the conditional update is not the identity); distinct = rounded case.")
ASSUMPTIONS = [
    "reference Born parameters and conditional states come from RefGauss (Schur complement, finite-eps homodyne model "
    "the backends document) and from harness projections of the recorded Fock density matrix",
    "statistical monitor: Kolmogorov-Smirnov bound at false-alarm probability 1e-9 per run, re-run once with 5x samples "
    "before reporting",
    "conditional Fock states are compared within 20*sqrt(tail)+1e-6 where the tail includes the truncated quadrature "
    "eigenstate the backend projects on",
]
REQUIRED_MONITORS = ["born:gaussian-homodyne", "born:gaussian-heterodyne", "born:bosonic-homodyne", "born:walrus-sampler-args",
                     "born:fock-photon-counting", "born:fock-homodyne-grid", "cond:gaussian", "cond:bosonic", "cond:fock",
                     "select:cross-backend", "layout:samples", "dark-counts", "ks:bosonic-sampler", "cond:bosonic-non-gaussian",
                     "born:bosonic-threshold", "cond:bosonic-threshold"]
MAX_SKIP_FRACTION = 0.3


def load():
    setup_paths()
    import strawberryfields as sf
    from strawberryfields import ops
    from .. import simrun, sfutil

    return {"sf": sf, "ops": ops, "simrun": simrun, "sfutil": sfutil}


# ---------------------------------------------------------------------------------------------
# pre-state programs
# ---------------------------------------------------------------------------------------------

def prior_cmds(rng, n, small, mixed=True):
    cmds = []
    amp = 0.25 if small else 0.7
    for m in range(n):
        cmds.append({"op": "Sgate", "p": [float(rng.uniform(-amp, amp)), float(rng.uniform(0, 6.28))], "m": [m]})
        cmds.append({"op": "Dgate", "p": [float(rng.uniform(0, amp)), float(rng.uniform(0, 6.28))], "m": [m]})
    for _ in range(max(1, n - 1)):
        if n >= 2:
            a, b = (int(x) for x in rng.choice(n, 2, replace=False))
            cmds.append({"op": "BSgate", "p": [float(rng.uniform(0.4, 1.2)), float(rng.uniform(0, 6.28))], "m": [a, b]})
    if mixed:
        for m in range(n):
            if rng.random() < 0.5:
                cmds.append({"op": "LossChannel", "p": [float(rng.uniform(0.6, 0.95))], "m": [m]})
    return cmds


def shadow_of(cmds, n, hbar):
    g = rg.GState(n)
    for c in cmds:
        rg.apply_op(g, c["op"], c["p"], c["m"], c.get("dag", False), hbar)
    return g


def build(env, n, cmds, meas):
    sf, ops = env["sf"], env["ops"]
    prog = sf.Program(n)
    with prog.context as q:
        for c in cmds:
            op = getattr(ops, c["op"])(*c["p"])
            regs = tuple(q[i] for i in c["m"])
            op | (regs if len(regs) > 1 else regs[0])
        kind = meas["kind"]
        if kind == "homodyne":
            sel = meas.get("select")
            ops.MeasureHomodyne(meas["phi"], select=sel) | q[meas["modes"][0]]
        elif kind == "heterodyne":
            sel = meas.get("select")
            ops.MeasureHeterodyne(select=complex(*sel) if sel is not None else None) | q[meas["modes"][0]]
        elif kind == "fock":
            ops.MeasureFock(select=meas.get("select"), dark_counts=meas.get("dark")) | tuple(q[i] for i in meas["modes"])
        elif kind == "threshold":
            ops.MeasureThreshold() | tuple(q[i] for i in meas["modes"])
    return prog


# ---------------------------------------------------------------------------------------------
# case execution
# ---------------------------------------------------------------------------------------------

class Harness:
    """Runs one program; snapshots the state before the measurement; scripts / records the RNG."""

    def __init__(self, env, script):
        self.env = env
        self.pre_snap = None
        self.post_snap = None
        self.in_meas = False
        self.tap = CommandTap()
        self.tap.pre.append(self.pre)
        self.tap.post.append(self.post)
        self.rt = RandomTap(self.wrap(script))
        self.rng_events = []

    def wrap(self, script):
        def f(name, a, k, real):
            if not self.in_meas:
                return NotImplemented
            self.rng_events.append((name, a, k))
            return script(name, a, k, real)
        return f

    def pre(self, op, reg, backend, kwargs):
        if isinstance(op, self.env["ops"].Measurement):
            self.pre_snap = self.env["simrun"].Snap(backend)
            self.in_meas = True

    def post(self, op, reg, backend, kwargs, res, exc):
        if isinstance(op, self.env["ops"].Measurement):
            self.in_meas = False
            self.ret = res
            if exc is None and kwargs.get("shots", 1) is not None:
                try:
                    self.post_snap = self.env["simrun"].Snap(backend)
                except Exception:
                    self.post_snap = None

    def run(self, prog, backend, conf, **run_options):
        sf = self.env["sf"]
        eng = sf.Engine(backend, backend_options=dict(conf))
        with self.rt, self.tap:
            try:
                res = eng.run(prog, **run_options)
            except Exception as e:
                return e, eng
        return res, eng


def cond_fock(snap, modes, proj_vectors):
    """Project the recorded Fock density matrix of `snap` on <v_k| for each measured mode k (v_k a vector of
    length D), return the normalised reduced density matrix of the remaining modes (as matrix) and the
    probability."""
    n, D = snap.n, snap.D
    rest = [m for m in range(n) if m not in modes]
    t = snap.dm
    # contract measured modes: rho -> <v| rho |v>
    letters = "abcdefghijklmnopqrstuvwxyz"
    expr_in = "".join(letters[2 * m] + letters[2 * m + 1] for m in range(n))
    operands = [t]
    expr = expr_in
    for m, v in zip(modes, proj_vectors):
        expr += "," + letters[2 * m] + "," + letters[2 * m + 1]
        operands += [np.conj(v), v]
    out = "".join(letters[2 * m] + letters[2 * m + 1] for m in rest)
    red = np.einsum(expr + "->" + out, *operands)
    k = len(rest)
    if k == 0:
        return None, float(np.real(red))
    perm = [2 * i for i in range(k)] + [2 * i + 1 for i in range(k)]
    M = np.transpose(red, perm).reshape(D ** k, D ** k)
    p = float(np.real(np.trace(M)))
    return (M / p if p > 0 else M), p


def homodyne_eigvec(D, x, phi):
    """Truncated eigenvector of x_phi = cos(phi) x + sin(phi) p (hbar = 2) with eigenvalue x, as coefficients in
    the Fock basis: <n|x_phi = x> = e^{i n phi} psi_n(x) with psi_n the harmonic oscillator functions (m omega / hbar = 1/2)."""
    from scipy.special import eval_hermite, gammaln

    nn = np.arange(D)
    y = x / np.sqrt(2.0)
    logn = -0.5 * (nn * np.log(2.0) + gammaln(nn + 1)) - 0.25 * np.log(2 * np.pi)
    psi = np.exp(logn - y ** 2 / 2) * eval_hermite(nn, y)
    return np.exp(1j * nn * phi) * psi


def run_case(case, rep, env):
    sf = env["sf"]
    kind = case["kind"]
    hbar = case.get("hbar", 2.0)
    sf.hbar = hbar
    try:
        return _run_case(case, rep, env, hbar)
    finally:
        sf.hbar = 2


def corr_with_rest(g, modes):
    rest = [m for m in range(g.n) if m not in modes]
    if not rest:
        return 0.0
    return float(np.max(np.abs(g.V[np.ix_(g.idx(modes), g.idx(rest))])))


def _run_case(case, rep, env, hbar):
    sf, simrun = env["sf"], env["simrun"]
    kind = case["kind"]
    n, cmds, meas, backend, conf = case["n"], case["cmds"], case["meas"], case["backend"], case.get("conf", {})
    V = lambda locus, k, what, detail=None: rep.violation(locus, k, what, case, detail)
    g = shadow_of(cmds, n, hbar)
    nt = corr_with_rest(g, meas["modes"]) > 1e-3
    rep.case([rnd({k: case.get(k) for k in ("n", "cmds", "meas", "backend", "conf")}, 5), hbar], nt,
             sample=case if rep.evaluations % 89 == 6 else None)
    lab = backend if backend != "fock" else ("fock-pure" if conf.get("pure", True) else "fock-mixed")
    rep.seen("measurement-x-backend", "%s%s%s@%s" % (meas["kind"], tuple(meas["modes"]), ":select" if meas.get("select") is not None else "", lab))
    s = np.sqrt(hbar / 2.0)
    mode = meas["modes"][0]

    # ------------------------------------------------------------------ homodyne / heterodyne on gaussian, bosonic
    if meas["kind"] in ("homodyne", "heterodyne") and backend in ("gaussian", "bosonic"):
        chosen = case["outcome"]  # hbar = 2 units; homodyne: x value, heterodyne: [x, p]

        def script(name, a, k, real):
            if name == "np.random.multivariate_normal":
                mean = np.asarray(a[0])
                size = k.get("size", a[2] if len(a) > 2 else None)
                vec = np.zeros(len(mean))
                if meas["kind"] == "homodyne":
                    vec[0] = chosen
                    vec[1] = 0.3
                else:
                    vec[:2] = chosen
                if backend == "bosonic":
                    vec = vec  # bosonic circuit also works at hbar = 2 internally
                return vec if size is None else np.array([vec] * int(size))
            if name == "np.random.normal":
                return 0.1
            if name == "np.random.random":
                size = k.get("size", a[0] if a else None)
                return 0.0 if size is None else np.zeros(size)
            if name == "np.random.choice":
                x = a[0]
                size = k.get("size", a[1] if len(a) > 1 else None)
                first = 0 if isinstance(x, (int, np.integer)) else x[0]
                return first if size is None else np.array([first] * int(np.prod(size)))
            return NotImplemented

        h = Harness(env, script)
        prog = build(env, n, cmds, meas)
        res, eng = h.run(prog, backend, conf)
        if isinstance(res, Exception):
            V(backend + ".measure", "exception:" + type(res).__name__, "%s raised %s: %s" % (meas["kind"], type(res).__name__, str(res)[:150]))
            return
        pre = h.pre_snap
        sel = meas.get("select")
        # reference Born parameters from the snapshot taken at the pre-hook (not from the shadow)
        gp = rg.GState(n)
        gp.mu, gp.V = np.real(pre.mu).copy(), np.real(pre.V).copy()
        if meas["kind"] == "homodyne":
            mean_ref, var_ref = gp.homodyne_dist(mode, meas["phi"])
            eps = 0.0002
            if sel is None:
                mv = [e for e in h.rng_events if e[0] == "np.random.multivariate_normal"]
                rep.monitor("born:%s-homodyne" % backend)
                if not mv:
                    V(backend + ".measure_homodyne", "no-rng-draw", "no multivariate_normal draw observed")
                    return
                mean_got, cov_got = np.asarray(mv[0][1][0], dtype=float), np.asarray(mv[0][1][1], dtype=float)
                if abs(mean_got[0] - mean_ref) > 1e-8 * (1 + abs(mean_ref)) or abs(cov_got[0, 0] - (var_ref + eps ** 2)) > 1e-8 * (1 + var_ref):
                    V(backend + ".measure_homodyne", "born-parameters", "homodyne at phi=%.4f on mode %d draws from N(%.9g, %.9g); "
                      "the Born distribution of the pre-measurement state is N(%.9g, %.9g)" % (
                          meas["phi"], mode, mean_got[0], cov_got[0, 0], mean_ref, var_ref + eps ** 2))
                    return
                outcome = chosen
                # returned value carries the documented hbar scaling
                got = float(np.real(np.ravel(res.samples)[0]))
                if abs(got - s * outcome) > 1e-9 * (1 + abs(outcome)):
                    V(backend + ".measure_homodyne", "returned-value-scaling", "scripted outcome %.9g (hbar=2 units) was returned "
                      "as %.9g at hbar=%.2f, expected %.9g" % (outcome, got, hbar, s * outcome))
                    return
            else:
                outcome = sel / s
            gp.condition_homodyne(mode, meas["phi"], outcome, eps=eps)
        else:
            if sel is None:
                mv = [e for e in h.rng_events if e[0] == "np.random.multivariate_normal"]
                rep.monitor("born:%s-heterodyne" % backend)
                mu1, V1 = gp.reduced([mode])
                mean_got, cov_got = np.asarray(mv[0][1][0], dtype=float), np.asarray(mv[0][1][1], dtype=float)
                if np.max(np.abs(mean_got - mu1)) > 1e-8 * (1 + np.max(np.abs(mu1))) or np.max(np.abs(cov_got - (V1 + np.eye(2)))) > 1e-8 * (1 + np.max(np.abs(V1))):
                    V(backend + ".measure_heterodyne", "born-parameters", "heterodyne on mode %d draws from mean %s cov %s; the Q "
                      "function of the pre-state has mean %s cov %s" % (mode, mean_got, cov_got.tolist(), mu1, (V1 + np.eye(2)).tolist()))
                    return
                alpha = (chosen[0] + 1j * chosen[1]) / 2
                got = complex(np.ravel(res.samples)[0])
                if abs(got - alpha) > 1e-9 * (1 + abs(alpha)):
                    V(backend + ".measure_heterodyne", "returned-value-scaling", "scripted outcome alpha=%s returned as %s" % (alpha, got))
                    return
            else:
                alpha = complex(*sel)
            gp.condition_heterodyne(mode, alpha)
        post = h.post_snap
        rep.monitor("cond:" + backend)
        d = max(np.max(np.abs(np.real(post.mu) - gp.mu)), np.max(np.abs(np.real(post.V) - gp.V)))
        tol = 2e-6 * (1 + np.max(np.abs(gp.V)) + np.max(np.abs(gp.mu)))
        rep.dev("%s.conditional-state" % backend, d, tol)
        if d > tol:
            kindv = "conditional-state"
            if meas["kind"] == "heterodyne" and sel is not None:
                kindv = "conditional-state:heterodyne-select"
            elif meas["kind"] == "heterodyne":
                kindv = "conditional-state:heterodyne"
            elif sel is not None:
                kindv = "conditional-state:homodyne-select"
            V("%s.measure_%s" % (backend, meas["kind"]), kindv, "after %s on mode %d (outcome %s) the %s state differs from the "
              "reference conditional state by %.3e (means %.3e)" % (meas["kind"], mode, rnd(outcome if meas["kind"] == "homodyne" else alpha, 5),
                                                                   backend, d, np.max(np.abs(np.real(post.mu) - gp.mu))))
        return

    # ------------------------------------------------------------------ homodyne on fock
    if meas["kind"] == "homodyne" and backend == "fock":
        pick = case.get("pick", 0.5)
        info = {}

        def script(name, a, k, real):
            if name == "np.random.multinomial":
                pv = np.asarray(a[1], dtype=float)
                info["probs"] = pv
                cdf = np.cumsum(pv)
                i = int(np.searchsorted(cdf, pick * cdf[-1]))
                info["idx"] = i
                out = np.zeros(len(pv), dtype=int)
                out[i] = a[0]
                return out
            return NotImplemented

        h = Harness(env, script)
        prog = build(env, n, cmds, meas)
        res, eng = h.run(prog, backend, conf)
        if isinstance(res, Exception):
            V("fock.measure_homodyne", "exception:" + type(res).__name__, "%s: %s" % (type(res).__name__, str(res)[:150]))
            return
        pre, post = h.pre_snap, h.post_snap
        D = pre.D
        sel = meas.get("select")
        tau = simrun.tail_mass(g, D)
        if tau > 1e-5:
            rep.skip("fock-truncation-dominated")
            return
        if sel is None:
            rep.monitor("born:fock-homodyne-grid")
            pv = info.get("probs")
            if pv is None:
                V("fock.measure_homodyne", "no-rng-draw", "no multinomial draw observed")
                return
            got = float(np.real(np.ravel(res.samples)[0])) / s  # hbar=2 units
            nb = len(pv)
            # reference density of x_phi from the recorded pre-state (Fock tensor -> moments -> not assumed Gaussian:
            # use the recorded reduced density matrix and the harness's own oscillator functions)
            rho1 = pre.reduced_matrix([mode]) / pre.trace
            grid_err = 0.0
            # probability assigned to the chosen bin vs reference pdf at the returned value
            vec = homodyne_eigvec(D, got, meas["phi"])
            pdf = float(np.real(np.conj(vec) @ rho1 @ vec))
            # bin width from the grid the backend documents: [-max, max] with num_bins points
            width = 2 * 10.0 / (nb - 1) if nb > 1 else 1.0
            pbin = float(pv[info["idx"]])
            if abs(pbin - pdf * width) > 2e-3 * max(pbin, pdf * width) + 1e-9:
                V("fock.measure_homodyne", "born-density", "the bin of the returned value %.5f has probability %.6e, the Born density "
                  "of the pre-state there gives %.6e (phi=%.3f)" % (got, pbin, pdf * width, meas["phi"]))
                return
            if abs(np.sum(pv) - 1) > 1e-6 or np.min(pv) < -1e-12:
                V("fock.measure_homodyne", "born-normalisation", "probabilities sum to %.9f, min %.3e" % (np.sum(pv), np.min(pv)))
                return
            # mean and variance of the distribution handed to the RNG
            xs = np.linspace(-10, 10, nb)
            m1 = float(np.sum(pv * xs))
            v1 = float(np.sum(pv * xs ** 2) - m1 ** 2)
            gp = rg.GState(n)
            gp.mu, gp.V = pre.fock_moments()
            mean_ref, var_ref = gp.homodyne_dist(mode, meas["phi"])
            tolm = simrun.fock_budget(tau) + 1e-3
            if abs(m1 - mean_ref) > tolm or abs(v1 - var_ref) > tolm * (1 + var_ref):
                V("fock.measure_homodyne", "born-moments", "grid distribution has mean %.5f var %.5f; pre-state x_phi has mean %.5f "
                  "var %.5f" % (m1, v1, mean_ref, var_ref))
                return
            outcome = got
        else:
            outcome = sel / s
        # conditional state: project the recorded density matrix on the (truncated) x_phi eigenvector
        rep.monitor("cond:fock")
        vec = homodyne_eigvec(D, outcome, meas["phi"])
        ref, p = cond_fock(pre, [mode], [vec])
        rest = [m for m in range(n) if m != mode]
        if ref is not None:
            gotm = post.reduced_matrix(rest) / post.trace
            d = np.max(np.abs(gotm - ref))
            # the backend projects on a truncated infinitely squeezed state; budget from the reference tail and edge population
            from ..simobs import edge_population
            # normalising the projected state divides its (truncation) error by the Born density at the outcome: outcomes in
            # the tail of the distribution amplify it (0.4 = peak density of a vacuum-width Gaussian at hbar = 2)
            amp = max(1.0, 0.4 / max(float(np.real(p)), 1e-12))
            tol = amp * 20 * np.sqrt(tau + edge_population(pre, [mode], 2)) + 1e-6
            rep.dev("fock.homodyne-conditional/budget", d / tol, 1.0)
            if d > tol:
                V("fock.measure_homodyne", "conditional-state" + (":select" if sel is not None else ""),
                  "after homodyne (phi=%.3f, outcome %.4f) the unmeasured modes differ from the projection of the "
                  "pre-state by %.3e (budget %.3e)" % (meas["phi"], outcome, d, tol))
                return
        vac = post.reduced_matrix([mode]) / post.trace
        if abs(vac[0, 0] - 1) > 1e-8:
            V("fock.measure_homodyne", "measured-mode-not-vacuum", "measured mode has vacuum population %.9f" % np.real(vac[0, 0]))
        return

    # ------------------------------------------------------------------ photon counting on fock
    if meas["kind"] == "fock" and backend == "fock":
        pick = case.get("pick", 0.5)
        info = {}

        def script(name, a, k, real):
            if name == "np.random.choice":
                pv = np.asarray(k.get("p"), dtype=float)
                info["p"] = pv
                cdf = np.cumsum(pv)
                i = int(np.searchsorted(cdf, pick * cdf[-1]))
                while pv[i] <= 0 and i > 0:
                    i -= 1
                info["idx"] = i
                x = a[0]
                return x[i]
            if name == "np.random.poisson":
                info["poisson"] = (a, k)
                lam = np.asarray(a[0])
                shape = a[1] if len(a) > 1 else k.get("size")
                return (np.arange(np.prod(shape)).reshape(shape) % 2) + 1
            return NotImplemented

        h = Harness(env, script)
        prog = build(env, n, cmds, meas)
        res, eng = h.run(prog, backend, conf)
        if isinstance(res, Exception):
            if isinstance(res, ZeroDivisionError) and meas.get("select") is not None:
                rep.observe("fock.select-zero-probability")
                return
            V("fock.measure_fock", "exception:" + type(res).__name__, "%s: %s" % (type(res).__name__, str(res)[:150]))
            return
        pre, post = h.pre_snap, h.post_snap
        D = pre.D
        modes = meas["modes"]
        sel = meas.get("select")
        raw = np.asarray(h.ret)  # (1, len(modes)) in listed order (before engine sorting), includes dark counts
        dark = meas.get("dark")
        outcome = [int(x) for x in np.ravel(raw)]
        if dark is not None:
            rep.monitor("dark-counts")
            pa = info.get("poisson")
            if pa is None:
                V("MeasureFock", "dark-counts-not-drawn", "dark_counts given but np.random.poisson was not called")
                return
            lam = np.ravel(np.asarray(pa[0][0], dtype=float))
            shape = pa[0][1] if len(pa[0]) > 1 else pa[1].get("size")
            if list(lam) != [float(x) for x in dark] or tuple(shape) != (1, len(modes)):
                V("MeasureFock", "dark-count-rates", "poisson called with rates %s shape %s; documented: rates %s per measured mode, "
                  "shape (shots, modes) = (1, %d)" % (lam, shape, dark, len(modes)))
                return
            add = (np.arange(len(modes)) % 2) + 1
            outcome = [o - int(a_) for o, a_ in zip(outcome, add)]
        if sel is None:
            rep.monitor("born:fock-photon-counting")
            pv = info.get("p")
            if pv is None:
                V("fock.measure_fock", "no-rng-draw", "no np.random.choice draw observed")
                return
            rho = pre.reduced_matrix(modes) / pre.trace  # listed order
            diag = np.real(np.diag(rho))
            if abs(np.sum(pv) - 1) > 1e-9:
                V("fock.measure_fock", "born-normalisation", "p sums to %.12f" % np.sum(pv))
                return
            # multiset of probabilities == diagonal of the reduced density matrix
            # (the backend zeroes entries below 1e-8 before normalising: allow that much per entry)
            ptol = 2e-8 * len(pv) + 1e-9
            if np.max(np.abs(np.sort(pv) - np.sort(diag / np.sum(diag)))) > ptol:
                V("fock.measure_fock", "born-probabilities", "probability vector handed to the RNG is not the photon-number "
                  "distribution of the measured modes")
                return
            # the probability of the chosen index == Born probability of the outcome that was returned
            idx = 0
            for o in outcome:
                idx = idx * D + o
            pb = diag[idx] / np.sum(diag)
            if abs(pv[info["idx"]] - pb) > ptol:
                V("fock.measure_fock", "outcome-index-map", "the drawn index has probability %.6e but the returned outcome %s on modes "
                  "%s has Born probability %.6e" % (pv[info["idx"]], outcome, modes, pb))
                return
        else:
            if outcome != list(sel):
                V("fock.measure_fock", "select-not-returned", "post-selected %s, returned %s" % (sel, outcome))
                return
        rep.monitor("cond:fock")
        vecs = []
        for o in outcome:
            v = np.zeros(D)
            v[o] = 1.0
            vecs.append(v)
        ref, p = cond_fock(pre, modes, vecs)
        rest = [m for m in range(n) if m not in modes]
        if ref is not None and p > 1e-12:
            gotm = post.reduced_matrix(rest) / post.trace
            d = np.max(np.abs(gotm - ref))
            rep.dev("fock.counting-conditional", d, 1e-8)
            if d > 1e-8:
                V("fock.measure_fock", "conditional-state" + (":select" if sel is not None else ""),
                  "after counting %s on modes %s the unmeasured modes differ from <n|rho|n> by %.3e" % (outcome, modes, d))
                return
        for m in modes:
            vac = post.reduced_matrix([m]) / post.trace
            if abs(vac[0, 0] - 1) > 1e-9:
                V("fock.measure_fock", "measured-mode-not-vacuum", "mode %d has vacuum population %.9f after the measurement" % (m, np.real(vac[0, 0])))
                return
        # layout: engine sorts columns by mode index
        rep.monitor("layout:samples")
        exp_sorted = [x for _, x in sorted(zip(modes, [int(v) for v in np.ravel(raw)]))]
        got_sorted = [int(x) for x in np.ravel(res.samples)]
        if got_sorted != exp_sorted or res.samples.shape != (1, len(modes)):
            V("Engine.samples", "layout", "Result.samples = %s (shape %s); measured modes %s returned %s, so ascending mode order "
              "gives %s" % (got_sorted, res.samples.shape, modes, np.ravel(raw).tolist(), exp_sorted))
        return

    # ------------------------------------------------------------------ photon counting / threshold on gaussian
    if meas["kind"] in ("fock", "threshold") and backend == "gaussian":
        shots = case.get("shots", 1)
        modes = meas["modes"]
        info = {}

        def script(name, a, k, real):
            if name.startswith("walrus."):
                info["sampler"] = (name, a, k)
                nm = len(modes)
                # unique numbers per (shot, column)
                base = np.array([[(7 * sh + 3 * c) % 5 for c in range(nm)] for sh in range(shots)])
                if "torontonian" in name:
                    base = base % 2
                return base
            if name == "np.random.poisson":
                info["poisson"] = (a, k)
                shape = a[1] if len(a) > 1 else k.get("size")
                return np.ones(shape, dtype=int)
            return NotImplemented

        h = Harness(env, script)
        prog = build(env, n, cmds, meas)
        res, eng = h.run(prog, backend, conf, shots=shots)
        if isinstance(res, Exception):
            V("gaussian.measure_" + meas["kind"], "exception:" + type(res).__name__, "%s: %s" % (type(res).__name__, str(res)[:150]))
            return
        pre, post = h.pre_snap, h.post_snap
        rep.monitor("born:walrus-sampler-args")
        sa = info.get("sampler")
        if sa is None:
            V("gaussian.measure_" + meas["kind"], "no-rng-draw", "the Walrus sampler was not called")
            return
        name, a, k = sa
        if "hafnian" in name:
            cov_got = np.asarray(a[0] if a else k.get("cov"))
            shots_got = a[1] if len(a) > 1 else k.get("samples")
            mean_got = k.get("mean")
            mean_got = np.zeros(len(cov_got)) if mean_got is None else np.asarray(mean_got)
        else:
            cov_got = np.asarray(k.get("cov", a[0] if a else None))
            mean_got = np.asarray(k.get("mu"))
            shots_got = k.get("samples")
        gp = rg.GState(n)
        gp.mu, gp.V = np.real(pre.mu).copy(), np.real(pre.V).copy()
        mu_ref, V_ref = gp.reduced(modes)
        if cov_got.shape != V_ref.shape or np.max(np.abs(cov_got - V_ref)) > 1e-9 * (1 + np.max(np.abs(V_ref))) or \
                np.max(np.abs(mean_got - mu_ref)) > 1e-9 * (1 + np.max(np.abs(mu_ref))):
            V("gaussian.measure_" + meas["kind"], "sampler-arguments", "the (cov, mean) handed to %s are not the reduced state of modes "
              "%s in the listed order (max cov diff %.3e, mean diff %.3e)" % (
                  name, modes, np.max(np.abs(cov_got - V_ref)) if cov_got.shape == V_ref.shape else np.inf,
                  np.max(np.abs(mean_got - mu_ref)) if mean_got.shape == mu_ref.shape else np.inf))
            return
        if shots_got != shots:
            V("gaussian.measure_" + meas["kind"], "sampler-shots", "sampler called for %s samples, run asked for %d shots" % (shots_got, shots))
            return
        # layout
        rep.monitor("layout:samples")
        nm = len(modes)
        base = np.array([[(7 * sh + 3 * c) % 5 for c in range(nm)] for sh in range(shots)])
        if meas["kind"] == "threshold":
            base = base % 2
        if meas.get("dark") is not None:
            rep.monitor("dark-counts")
            pa = info.get("poisson")
            lam = np.ravel(np.asarray(pa[0][0], dtype=float)) if pa else None
            shape = (pa[0][1] if len(pa[0]) > 1 else pa[1].get("size")) if pa else None
            if pa is None or list(lam) != [float(x) for x in meas["dark"]] or tuple(shape) != (shots, nm):
                V("MeasureFock", "dark-count-rates", "poisson called with rates %s shape %s; documented rates %s, shape (%d, %d)" % (
                    lam, shape, meas["dark"], shots, nm))
                return
            base = base + 1
        order = np.argsort(modes)
        exp = base[:, order]
        got = np.asarray(res.samples)
        if got.shape != exp.shape or not np.array_equal(got, exp):
            V("Engine.samples", "layout", "Result.samples = %s; sampler columns (listed modes %s) were %s, so rows=shots and columns in "
              "ascending mode order give %s" % (got.tolist(), modes, base.tolist(), exp.tolist()))
            return
        for j, m in enumerate(modes):
            sd = np.asarray(res.samples_dict[m][-1])
            if not np.array_equal(np.ravel(sd), base[:, j]):
                V("Engine.samples_dict", "layout", "samples_dict[%d] = %s, expected the column of that mode %s" % (m, sd.tolist(), base[:, j].tolist()))
                return
            val = prog.reg_refs[m].val
            if val is None or not np.array_equal(np.ravel(val), base[:, j]):
                V("RegRef.val", "layout", "q[%d].val = %s, expected %s" % (m, val, base[:, j].tolist()))
                return
        # post-measurement state (shots == 1): measured modes must be reset to vacuum, rest conditioned
        if shots == 1 and post is not None:
            rep.monitor("cond:gaussian-counting")
            mu_m, V_m = post.mu[rg.GState(n).idx(modes)], post.V[np.ix_(rg.GState(n).idx(modes), rg.GState(n).idx(modes))]
            if np.max(np.abs(np.real(V_m) - np.eye(2 * nm))) > 1e-8 or np.max(np.abs(np.real(mu_m))) > 1e-8:
                V("gaussian.measure_" + meas["kind"], "state-not-updated", "after one shot of %s on modes %s the measured modes are not in "
                  "vacuum (the state was left untouched)" % (meas["kind"], modes))
        return
    rep.skip("unsupported-combination")


def select_cross_backend(case, rep, env):
    """Same post-selected homodyne value on gaussian, bosonic and fock: conditional states pairwise through the shadow."""
    sf, simrun = env["sf"], env["simrun"]
    hbar = case["hbar"]
    sf.hbar = hbar
    try:
        n, cmds, meas = case["n"], case["cmds"], case["meas"]
        g = shadow_of(cmds, n, hbar)
        D = case["cutoff"]
        tau = simrun.tail_mass(g, D)
        rep.case([rnd({k: case[k] for k in ("n", "cmds", "meas")}, 5), hbar, "cross"], corr_with_rest(g, meas["modes"]) > 1e-3)
        states = {}
        for backend, conf in (("gaussian", {}), ("bosonic", {}), ("fock", {"cutoff_dim": D})):
            if backend == "fock" and tau > 1e-6:
                continue
            prog = build(env, n, cmds, meas)
            eng = sf.Engine(backend, backend_options=conf)
            try:
                eng.run(prog)
            except Exception as e:
                rep.violation(backend + ".measure", "exception:" + type(e).__name__, "post-selection raised %s: %s" % (
                    type(e).__name__, str(e)[:120]), case)
                return
            snap = simrun.Snap(eng.backend)
            if backend == "fock":
                states[backend] = snap.fock_moments()
            else:
                states[backend] = (np.real(snap.mu), np.real(snap.V))
        rep.monitor("select:cross-backend")
        ref = g.copy()
        s = np.sqrt(hbar / 2.0)
        if meas["kind"] == "homodyne":
            ref.condition_homodyne(meas["modes"][0], meas["phi"], meas["select"] / s, eps=0.0002)
        else:
            ref.condition_heterodyne(meas["modes"][0], complex(*meas["select"]))
        # conditioning divides the (truncated) unnormalised state by the likelihood of the selected outcome: the Fock
        # truncation error grows by peak density / density at the outcome = exp(z^2 / 2) of the reference marginal
        amp = 1.0
        if meas["kind"] == "homodyne":
            m0 = meas["modes"][0]
            cphi, sphi = np.cos(meas["phi"]), np.sin(meas["phi"])
            qm = cphi * g.mu[m0] + sphi * g.mu[n + m0]
            qv = cphi ** 2 * g.V[m0, m0] + sphi ** 2 * g.V[n + m0, n + m0] + 2 * cphi * sphi * g.V[m0, n + m0]
            amp = float(np.exp(min((meas["select"] / s - qm) ** 2 / (2 * qv), 20.0)))
            rep.observe("select:outcome-z<=%d" % int(np.ceil(abs(meas["select"] / s - qm) / np.sqrt(qv))))
        for b, (mu, Vv) in states.items():
            tol = 2e-6 * (1 + np.max(np.abs(ref.V))) if b != "fock" else simrun.fock_budget(tau) * max(1.0, amp) + 5e-3
            d = max(np.max(np.abs(mu - ref.mu)), np.max(np.abs(Vv - ref.V)))
            if d > tol:
                kind = "select-conditional-state"
                if meas["kind"] == "heterodyne":
                    kind += ":heterodyne"
                rep.violation("%s.measure_%s" % (b, meas["kind"]), kind, "post-selecting %s = %s on mode %d: the %s conditional "
                              "state differs from the reference by %.3e (tolerance %.2e)" % (
                                  meas["kind"], meas["select"], meas["modes"][0], b, d, tol), case)
    finally:
        sf.hbar = 2


def ks_bosonic(case, rep, env):
    """Statistical monitor for what argument inspection cannot see (proposal weights and accept rule of the bosonic rejection
    sampler): N sampled outcomes of a cat state - homodyne on the cat axis, at an oblique angle, across the axis, or heterodyne
    (real part) - are binned into 12 cells that are equiprobable under the exact Born distribution (RefFock ket, Hermite
    functions / coherent-state overlaps computed here).  Two stages with fresh streams: a cell count more than 4.5 sigma off
    triggers a second run with 5 N samples, which must be more than 6 sigma off to report (joint false-alarm rate < 1e-11)."""
    import math

    from .. import reffock as rf

    sf, ops = env["sf"], env["ops"]
    a, N, seed = case["a"], case["N"], case["seed"]
    kind = case.get("meas", "x")
    phi = {"x": 0.0, "oblique": 1.0, "p": np.pi / 2, "heterodyne": 0.0}[kind]
    par = case.get("parity", 0)
    rep.case(["ks", a, N, seed, kind, par], True)
    D = 45
    ket = rf.FState.cat_ket(a, 0.0, par, D)
    if kind == "heterodyne":
        g = np.linspace(-5.5, 5.5, 331)
        B = g[:, None] + 1j * g[None, :]
        amp = np.zeros_like(B)
        for n_ in range(D):
            amp = amp + ket[n_] * np.conj(B) ** n_ / math.sqrt(math.factorial(n_))
        Q = np.abs(np.exp(-np.abs(B) ** 2 / 2) * amp) ** 2 / np.pi
        dens = Q.sum(axis=1) * (g[1] - g[0])
        grid = g
    else:
        grid = np.linspace(-13, 13, 5201)
        H = rf.FState.hermite_functions(D, grid)
        psi = (ket[:, None] * np.exp(-1j * phi * np.arange(D))[:, None] * H).sum(axis=0)
        dens = np.abs(psi) ** 2
    cdf = np.concatenate([[0.0], np.cumsum((dens[1:] + dens[:-1]) / 2 * np.diff(grid))])
    cdf = cdf / cdf[-1]
    K = 12
    edges = np.interp(np.arange(1, K) / K, cdf, grid)

    def draw(N, seed):
        np.random.seed(seed)
        xs = []
        prog = sf.Program(1)
        with prog.context as q:
            ops.Catstate(a, 0.0, par) | q[0]
            if kind == "heterodyne":
                ops.MeasureHeterodyne() | q[0]
            else:
                ops.MeasureHomodyne(phi) | q[0]
        eng = sf.Engine("bosonic")
        for _ in range(N):
            res = eng.run(prog)
            xs.append(float(np.real(np.ravel(res.samples)[0])))
            eng.reset()
        return np.array(xs)

    def zmax(xs):
        counts = np.bincount(np.searchsorted(edges, xs), minlength=K)
        n = len(xs)
        z = (counts - n / K) / np.sqrt(n * (1 / K) * (1 - 1 / K))
        return float(np.max(np.abs(z))), counts

    z1, c1 = zmax(draw(N, seed))
    rep.monitor("ks:bosonic-sampler")
    rep.seen("sampler-statistics", "%s a=%.1f parity=%s" % (kind, a, par))
    rep.dev("bosonic-sampler.max|z|(stage 1)/4.5", z1 / 4.5, 1.0)
    if z1 > 4.5:
        z2, c2 = zmax(draw(5 * N, seed + 1))
        rep.observe("sampler-statistics.second-stage")
        if z2 > 6.0:
            rep.violation("bosonic.measure_dyne", "sampling-distribution", "%s outcomes of a cat state (a=%.2f, parity %s) do not follow the Born "
                          "distribution: counts in 12 equiprobable cells %s (N=%d, max |z| = %.1f), confirmed with a fresh stream: %s (N=%d, "
                          "max |z| = %.1f)" % (kind, a, par, c1.tolist(), N, z1, c2.tolist(), 5 * N, z2), case)


# ---------------------------------------------------------------------------------------------
# generation
# ---------------------------------------------------------------------------------------------

def gen_case(rng, i):
    r = i % 10
    hbar = float(rng.choice([2.0, 2.0, 0.7]))
    if r in (0, 1, 2):  # gaussian / bosonic homodyne, heterodyne
        backend = "gaussian" if rng.random() < 0.5 else "bosonic"
        n = int(rng.integers(2, 5))
        kind = "homodyne" if rng.random() < 0.6 else "heterodyne"
        meas = {"kind": kind, "modes": [int(rng.integers(n))]}
        if kind == "homodyne":
            meas["phi"] = gen.angle(rng)
            outcome = float(rng.choice([0.0, -0.8, rng.normal(0, 1.5)]))
            if rng.random() < 0.4:
                meas["select"] = float(rng.choice([0.0, -0.5, 0.73, rng.normal(0, 1)]))
        else:
            outcome = [float(rng.normal(0, 1)), float(rng.normal(0, 1))]
            if rng.random() < 0.4:
                meas["select"] = [float(rng.normal(0, 0.7)), float(rng.choice([0.0, rng.normal(0, 0.7)]))]
        return {"kind": "single", "n": n, "cmds": prior_cmds(rng, n, False), "meas": meas, "backend": backend, "hbar": hbar,
                "outcome": outcome}
    if r in (3, 4):  # fock homodyne
        n = int(rng.integers(2, 4))
        meas = {"kind": "homodyne", "modes": [int(rng.integers(n))], "phi": gen.angle(rng)}
        if rng.random() < 0.4:
            meas["select"] = float(rng.choice([0.0, -0.3, 0.4]))
        return {"kind": "single", "n": n, "cmds": prior_cmds(rng, n, True, mixed=bool(rng.integers(2))), "meas": meas,
                "backend": "fock", "conf": {"cutoff_dim": 9 if n == 2 else 7, "pure": bool(rng.integers(2))}, "hbar": hbar,
                "pick": float(rng.uniform(0.05, 0.95))}
    if r in (5, 6):  # fock photon counting
        n = int(rng.integers(2, 4))
        k = int(rng.integers(1, n + 1))
        modes = [int(x) for x in rng.choice(n, k, replace=False)]
        cyc = rng.random() < 0.3
        if cyc:
            # all three modes in a cyclic order: the only mode lists whose sorting permutation is not its own inverse
            n = k = 3
            modes = [[1, 2, 0], [2, 0, 1]][int(rng.integers(2))]
        meas = {"kind": "fock", "modes": modes}
        rr = rng.random()
        if rr < 0.3:
            meas["select"] = [int(rng.integers(0, 2)) for _ in modes]
        elif rr < 0.45:
            meas["dark"] = [float(x) for x in rng.uniform(0.1, 1.0, k)]
        return {"kind": "single", "n": n, "cmds": prior_cmds(rng, n, True, mixed=bool(rng.integers(2))), "meas": meas,
                "backend": "fock", "conf": {"cutoff_dim": 8 if n == 2 else 6, "pure": bool(rng.integers(2))}, "hbar": hbar,
                # (the scripted draw is the outcome at this quantile: high quantiles give unequal, non-zero photon numbers)
                "pick": float(rng.uniform(0.6, 0.995)) if cyc else float(rng.uniform(0.02, 0.98))}
    if r in (7, 8):  # gaussian photon counting / threshold
        n = int(rng.integers(2, 5))
        k = int(rng.integers(1, n + 1))
        modes = [int(x) for x in rng.choice(n, k, replace=False)]
        meas = {"kind": "fock" if rng.random() < 0.6 else "threshold", "modes": modes}
        if meas["kind"] == "fock" and rng.random() < 0.25:
            meas["dark"] = [float(x) for x in rng.uniform(0.1, 1.0, k)]
        cm = prior_cmds(rng, n, False)
        if rng.random() < 0.3:
            cm = [c for c in cm if c["op"] != "Dgate"]
        return {"kind": "single", "n": n, "cmds": cm, "meas": meas, "backend": "gaussian", "hbar": hbar,
                "shots": int(rng.choice([1, 1, 2, 7]))}
    # cross-backend post-selection
    n = int(rng.integers(2, 4))
    if rng.random() < 0.7:
        meas = {"kind": "homodyne", "modes": [int(rng.integers(n))], "phi": gen.angle(rng),
                "select": float(rng.choice([0.0, -0.3, 0.4, rng.normal(0, 0.4)]))}
    else:
        meas = {"kind": "heterodyne", "modes": [int(rng.integers(n))], "select": [float(rng.normal(0, 0.3)), float(rng.normal(0, 0.3))]}
    return {"kind": "cross", "n": n, "cmds": prior_cmds(rng, n, True), "meas": meas, "hbar": hbar, "cutoff": 10 if n == 2 else 8}


def nongauss_case(case, rep, env):
    """Bosonic backend, non-Gaussian pre-measurement state (cat states: complex weights and complex means) entangled over two
    modes, one of them measured by homodyne / heterodyne detection (post-selected or sampled): the state afterwards must be
    <outcome| rho |outcome> / p on the other mode (RefFock reference) and vacuum on the measured mode."""
    import math

    from .. import nongauss as ng, simrun

    sf, ops = env["sf"], env["ops"]
    V = lambda locus, kind, what, detail=None: rep.violation(locus, kind, what, case, detail)
    D, C = 26, 8
    spec, meas = case["ng"], case["meas"]
    m = meas["mode"]
    sf.hbar = 2
    prog = ng.build(sf, ops, spec)
    with prog.context as q:
        if meas["kind"] == "homodyne":
            ops.MeasureHomodyne(meas["phi"], select=meas.get("select")) | q[m]
        else:
            ops.MeasureHeterodyne(select=None if meas.get("select") is None else complex(*meas["select"])) | q[m]
    np.random.seed(case["seed"])
    eng = sf.Engine("bosonic")
    try:
        res = eng.run(prog)
    except Exception as e:
        V("bosonic.measure_" + meas["kind"], "exception:" + type(e).__name__, "%s on a cat-state circuit raised %s: %s" % (
            meas["kind"], type(e).__name__, str(e)[:150]))
        return
    out = complex(np.ravel(res.samples)[0])
    sel = meas.get("select") is not None
    f = ng.reference(spec, D)
    if f.tail(C) > 1e-6:
        rep.skip("nongauss reference truncation")
        return
    if meas["kind"] == "homodyne":
        v = homodyne_eigvec(D, float(np.real(out)), meas["phi"])
    else:
        nn = np.arange(D)
        v = np.exp(-abs(out) ** 2 / 2) * out ** nn / np.sqrt(np.array([math.factorial(int(k)) for k in nn], dtype=float))
    rho4 = f.rho.reshape(D, D, D, D)  # (i0, i1, j0, j1)
    red = np.einsum("a,aibj,b->ij", np.conj(v), rho4, v) if m == 0 else np.einsum("a,iajb,b->ij", np.conj(v), rho4, v)
    prob = float(np.real(np.trace(red)))
    if prob < 1e-3:
        rep.observe("nongauss.skipped:outcome-density-below-1e-3")
        return
    red = red[:C, :C] / prob
    vac = np.zeros((C, C))
    vac[0, 0] = 1.0
    exp = np.kron(vac, red) if m == 0 else np.kron(red, vac)
    snap = simrun.Snap(eng.backend)
    got = ng.bosonic_dm(snap, C)
    rep.monitor("cond:bosonic-non-gaussian")
    rep.seen("nongauss-measurements", "%s%s mode=%d" % (meas["kind"], ":select" if sel else ":sampled", m))
    d = float(np.max(np.abs(got - exp)))
    # sampled homodyne: the simulators condition on the discarded conjugate sample as well (finite-squeezing model, see C05)
    tol = 5e-4 if sel or meas["kind"] != "homodyne" else 6e-3
    rep.dev("bosonic.non-gaussian-conditional-state/tolerance", d / tol, 1.0)
    if d > tol:
        V("bosonic.measure_" + meas["kind"], "conditional-state:non-gaussian" + (":select" if sel else ""),
          "after %s of mode %d (outcome %s, %s) on an entangled cat-state circuit the bosonic state differs from "
          "<outcome|rho|outcome>/p (x) vacuum by %.3e in the Fock basis (outcome density %.3e)" % (
              meas["kind"], m, np.round(out, 5), "post-selected" if sel else "sampled", d, prob))


def threshold_bosonic_case(case, rep, env):
    """Bosonic threshold detection (one or both modes of an entangled two-mode state, Gaussian or cat-state based): the click
    probability handed to the RNG must be 1 - <0|rho_m|0> of the state *at that moment* (second detector: conditional on the
    first outcome), and the state afterwards must be the documented conditional state (no click: vacuum projection, click:
    its complement), measured modes reset to vacuum.  Outcomes are scripted at np.random.choice."""
    from .. import nongauss as ng, simrun

    sf, ops = env["sf"], env["ops"]
    V = lambda locus, kind, what, detail=None: rep.violation(locus, kind, what, case, detail)
    D, C = 24, 8
    spec, modes, clicks = case["ng"], case["modes"], case["clicks"]
    sf.hbar = case.get("hbar", 2.0)
    handed = []

    def script(name, a, k, real):
        if name == "np.random.choice" and len(handed) < len(clicks):
            handed.append([float(x) for x in k.get("p", [np.nan, np.nan])])
            return clicks[len(handed) - 1]
        return NotImplemented

    prog = ng.build(sf, ops, spec)
    with prog.context as q:
        ops.MeasureThreshold() | tuple(q[m] for m in modes)
    eng = sf.Engine("bosonic")
    try:
        with RandomTap(script):
            res = eng.run(prog)
    except Exception as e:
        V("bosonic.measure_threshold", "exception:" + type(e).__name__, "MeasureThreshold on modes %s raised %s: %s" % (
            modes, type(e).__name__, str(e)[:150]))
        return
    f = ng.reference(spec, D)
    if f.tail(C + 6) > 1e-7:
        rep.skip("nongauss reference truncation")
        return
    rho = f.rho.copy()
    P0 = np.zeros((D, D))
    P0[0, 0] = 1.0
    I = np.eye(D)
    for step, (m, c) in enumerate(zip(modes, clicks)):
        Pm = np.kron(P0, I) if m == 0 else np.kron(I, P0)
        proj = Pm @ rho @ Pm
        p0 = float(np.real(np.trace(proj)) / np.real(np.trace(rho)))
        rep.monitor("born:bosonic-threshold")
        if step >= len(handed):
            V("bosonic.measure_threshold", "no-rng-draw", "no np.random.choice draw observed for detector %d" % step)
            return
        got = handed[step]
        if abs(got[0] - p0) > 1e-6 or abs(got[1] - (1 - p0)) > 1e-6:
            V("bosonic.measure_threshold", "born-parameters" + (":second-detector" if step else ""),
              "threshold detector on mode %d draws from p(no click, click) = %s; the state at that moment has <0|rho|0> = %.9f%s" % (
                  m, np.round(got, 9).tolist(), p0, " (given the first detector's outcome %d)" % clicks[0] if step else ""))
            return
        pc = p0 if c == 0 else 1 - p0
        if pc < 1e-3:
            rep.observe("threshold.skipped:scripted-outcome-probability-below-1e-3")
            return
        if c == 0:
            rho = proj / p0
        else:
            r4 = rho.reshape(D, D, D, D)
            other = np.einsum("aiaj->ij", r4) if m == 0 else np.einsum("iaja->ij", r4)
            full = np.kron(P0, other) if m == 0 else np.kron(other, P0)
            rho = (full - proj) / (np.real(np.trace(full)) - np.real(np.trace(proj)))
    samples = [int(x) for x in np.ravel(res.samples)]
    order = sorted(range(len(modes)), key=lambda i: modes[i])
    if samples != [clicks[i] for i in order]:
        V("bosonic.measure_threshold", "returned-outcome", "scripted clicks %s on modes %s, Result.samples = %s (ascending mode order expected)" % (
            clicks, modes, samples))
        return
    ref = rho.reshape([D] * 4)[tuple(slice(0, C) for _ in range(4))].reshape(C * C, C * C)
    snap = simrun.Snap(eng.backend)
    gotdm = ng.bosonic_dm(snap, C)
    rep.monitor("cond:bosonic-threshold")
    rep.seen("threshold-patterns", "modes=%s clicks=%s" % (tuple(modes), tuple(clicks)))
    d = float(np.max(np.abs(gotdm - ref)))
    rep.dev("bosonic.threshold-conditional-state", d, 1e-6)
    if d > 1e-6:
        V("bosonic.measure_threshold", "conditional-state:" + ("click" if clicks[-1] else "no-click"),
          "after threshold detection of modes %s with outcomes %s the bosonic state differs from the conditional state "
          "(no click: <0|rho|0>/p0, click: (Tr_m rho - <0|rho|0>)/(1-p0), measured modes in vacuum) by %.3e in the Fock basis" % (
              modes, clicks, d))


def gen_threshold_case(rng):
    from .. import nongauss as ng

    spec = ng.gen_case(rng, allow_approx=False)
    spec["n"] = 2
    if rng.random() < 0.4:
        # purely Gaussian input as well
        spec["cmds"] = [{"op": "Coherent", "p": [float(rng.uniform(0.2, 0.8)), float(rng.uniform(0, 6.28))], "m": [0]},
                        {"op": "Sgate", "p": [float(rng.uniform(-0.3, 0.3)), float(rng.uniform(0, 6.28))], "m": [1]}]
    if not any(c["op"] == "BSgate" for c in spec["cmds"]):
        spec["cmds"].append({"op": "BSgate", "p": [float(rng.uniform(0.4, 1.2)), float(rng.uniform(0, 6.28))], "m": [0, 1], "dag": False})
    k = 1 if rng.random() < 0.6 else 2
    modes = [int(x) for x in rng.permutation(2)[:k]]
    return {"kind": "threshold-bosonic", "ng": spec, "modes": modes, "clicks": [int(rng.integers(2)) for _ in modes],
            "hbar": float(rng.choice([2.0, 2.0, 1.0]))}


def gen_nongauss_case(rng):
    from .. import nongauss as ng

    spec = ng.gen_case(rng, allow_approx=False)
    if spec["n"] == 1:
        spec["n"] = 2
    if not any(c["op"] == "BSgate" for c in spec["cmds"]):
        spec["cmds"].append({"op": "BSgate", "p": [float(rng.uniform(0.4, 1.2)), float(rng.uniform(0, 6.28))], "m": [0, 1], "dag": False})
    kind = "homodyne" if rng.random() < 0.6 else "heterodyne"
    meas = {"kind": kind, "mode": int(rng.integers(2))}
    if kind == "homodyne":
        meas["phi"] = float(rng.choice([0.0, np.pi / 2, float(rng.uniform(0, 6.28))]))
        if rng.random() < 0.7:
            meas["select"] = float(rng.choice([0.0, 0.6, -0.4, float(rng.normal(0, 0.8))]))
    elif rng.random() < 0.7:
        meas["select"] = [float(rng.choice([0.0, float(rng.normal(0, 0.5))])), float(rng.choice([0.0, float(rng.normal(0, 0.5))]))]
    return {"kind": "nongauss", "ng": spec, "meas": meas, "seed": int(rng.integers(2 ** 31))}


def plan(tier, seed, scale=1.0):
    n = int((60 if tier == "quick" else 1000) * scale)
    return [{"n": n, "timeout": 3000, "ksN": 2500 if tier == "quick" else 12000} for _ in range(16)]


def dispatch(case, rep, env):
    if case["kind"] == "single":
        run_case(case, rep, env)
    elif case["kind"] == "cross":
        if case["meas"]["kind"] == "heterodyne":
            # fock has no heterodyne: gaussian vs bosonic only (fock leg skipped through tau)
            case = dict(case, cutoff=1)
        select_cross_backend(case, rep, env)
    elif case["kind"] == "ks":
        ks_bosonic(case, rep, env)
    elif case["kind"] == "nongauss":
        try:
            nongauss_case(case, rep, env)
        finally:
            env["sf"].hbar = 2
    elif case["kind"] == "threshold-bosonic":
        try:
            threshold_bosonic_case(case, rep, env)
        finally:
            env["sf"].hbar = 2


def run_shard(shard, rep):
    env = load()
    rng = np.random.default_rng([shard["seed"], shard["id"], 6])
    for i in range(shard["n"]):
        case = gen_case(rng, i) if i % 6 != 5 else (gen_nongauss_case(rng) if i % 12 == 5 else gen_threshold_case(rng))
        if case["kind"] == "nongauss":
            rep.case(["nongauss", rnd(case["ng"], 5), rnd(case["meas"], 5)], True)
        if case["kind"] == "threshold-bosonic":
            rep.case(["threshold-bosonic", rnd(case["ng"], 5), case["modes"], case["clicks"]], True)
        try:
            dispatch(case, rep, env)
        except Exception as e:
            rep.error("run_case:" + case["kind"] + ":" + case.get("meas", {}).get("kind", "") + ":" + case.get("backend", ""), e)
    try:
        ks_bosonic({"kind": "ks", "a": float(rng.choice([0.8, 1.2, 1.5])), "N": shard["ksN"], "seed": int(rng.integers(2 ** 31)),
                    "meas": ["x", "oblique", "p", "heterodyne"][shard["id"] % 4], "parity": int(rng.integers(2))}, rep, env)
    except Exception as e:
        rep.error("ks", e)


def replay(case, rep):
    dispatch(case, rep, load())
