"""Seeded workload generators shared by the property modules (matrices, parameter values, programs)."""
import numpy as np
from scipy.linalg import block_diag
from scipy.stats import unitary_group, ortho_group

from . import refgauss as rg

PI = np.pi
BOUNDARY_ANGLES = [0.0, 1e-14, -1e-14, 1e-9, -1e-9, PI / 4, -PI / 4, PI / 2, -PI / 2, PI, -PI, 2 * PI, -2 * PI,
                   3 * PI / 2]


def haar(rng, n):
    if n == 1:
        return np.array([[np.exp(1j * rng.uniform(0, 2 * PI))]])
    return unitary_group.rvs(n, random_state=int(rng.integers(2 ** 31)))


def real_orth(rng, n):
    if n == 1:
        return np.array([[float(rng.choice([-1.0, 1.0]))]])
    return ortho_group.rvs(n, random_state=int(rng.integers(2 ** 31)))


def embedded_2x2_product(rng, n, k):
    """Product of k embedded 2x2 Haar blocks: many exact zeros."""
    U = np.eye(n, dtype=complex)
    for _ in range(k):
        i = int(rng.integers(n - 1))
        B = np.eye(n, dtype=complex)
        B[i:i + 2, i:i + 2] = haar(rng, 2)
        U = B @ U
    return U


def unitary_class(rng, n):
    """(class name, matrix, valid?) valid: True / False (must raise) ."""
    classes = ["haar", "haar", "haar", "real_orthogonal", "permutation", "identity", "diag_phases", "block_diag",
               "exact_zeros", "antiidentity", "near_valid", "perm_phases", "invalid_nonunitary", "invalid_scaled",
               "float_orthogonal", "float_signs", "float_signed_permutation", "int_signed_permutation", "weak_coupling",
               "weak_coupling"]
    if n == 1:
        classes = ["haar", "identity", "diag_phases", "invalid_scaled", "float_signs", "int_signed_permutation"]
    c = str(rng.choice(classes))
    if c == "weak_coupling":
        # a structured unitary (identity / permutation / block diagonal / diagonal phases) times exp(i eps H) with a coupling
        # far below every tolerance but not zero: entries of modulus 1e-11 ... 1e-8 where the meshes test for zeros
        from scipy.linalg import expm

        base = str(rng.choice(["identity", "permutation", "block", "phases"]))
        if base == "identity":
            U0 = np.eye(n, dtype=complex)
        elif base == "permutation":
            U0 = np.eye(n, dtype=complex)[rng.permutation(n)]
        elif base == "phases":
            U0 = np.diag(np.exp(1j * rng.uniform(0, 2 * PI, n)))
        else:
            k = max(1, n // 2)
            U0 = np.eye(n, dtype=complex)
            U0[:k, :k] = haar(rng, k)
            if n - k > 0:
                U0[k:, k:] = haar(rng, n - k)
        H = rng.normal(size=(n, n)) + 1j * rng.normal(size=(n, n))
        H = (H + H.conj().T) / 2
        eps = float(rng.choice([1e-8, 3e-9, 1e-9, 2e-10, 1e-11]))
        return c, U0 @ expm(1j * eps * H), True
    if c == "int_signed_permutation":
        # integer *dtype* (a hand-typed permutation / sign matrix)
        return c, (np.eye(n, dtype=int)[rng.permutation(n)] * rng.choice([-1, 1], n)).astype(int), True
    # real *dtype* inputs (users pass np.eye / orthogonal matrices as float arrays)
    if c == "float_orthogonal":
        return c, np.asarray(real_orth(rng, n), dtype=float), True
    if c == "float_signs":
        d = rng.choice([-1.0, 1.0], n)
        d[int(rng.integers(n))] = -1.0
        return c, np.diag(d), True
    if c == "float_signed_permutation":
        return c, np.eye(n)[rng.permutation(n)] * rng.choice([-1.0, 1.0], n), True
    if c == "haar":
        return c, haar(rng, n), True
    if c == "real_orthogonal":
        return c, real_orth(rng, n).astype(complex), True
    if c == "permutation":
        return c, np.eye(n, dtype=complex)[rng.permutation(n)], True
    if c == "perm_phases":
        return c, np.eye(n, dtype=complex)[rng.permutation(n)] @ np.diag(np.exp(1j * rng.uniform(0, 2 * PI, n))), True
    if c == "identity":
        return c, np.eye(n, dtype=complex), True
    if c == "antiidentity":
        return c, np.eye(n, dtype=complex)[::-1].copy(), True
    if c == "diag_phases":
        ph = rng.choice(BOUNDARY_ANGLES + list(rng.uniform(0, 2 * PI, 4)), n)
        return c, np.diag(np.exp(1j * ph)), True
    if c == "block_diag":
        k = int(rng.integers(1, n))
        return c, block_diag(haar(rng, k), haar(rng, n - k)).astype(complex), True
    if c == "exact_zeros":
        return c, embedded_2x2_product(rng, n, int(rng.integers(1, n + 1))), True
    if c == "near_valid":
        U = haar(rng, n)
        return c, U + 1e-15 * (rng.normal(size=(n, n)) + 1j * rng.normal(size=(n, n))), True
    if c == "invalid_nonunitary":
        U = haar(rng, n)
        return c, U + 1e-4 * (rng.normal(size=(n, n)) + 1j * rng.normal(size=(n, n))), False
    if c == "invalid_scaled":
        return c, haar(rng, n) * 1.01, False
    raise AssertionError(c)


def symmetric_class(rng, n):
    classes = ["complex", "complex", "real", "degenerate", "rank_deficient", "zero", "imaginary", "diagonal",
               "real_degenerate", "all_equal", "invalid_nonsymmetric", "invalid_nonsquare"]
    if n == 1:
        classes = ["complex", "real", "zero"]
    c = str(rng.choice(classes))
    if c == "complex":
        A = rng.normal(size=(n, n)) + 1j * rng.normal(size=(n, n))
        return c, A + A.T, True
    if c == "real":
        A = rng.normal(size=(n, n))
        return c, (A + A.T).astype(complex), True
    if c == "degenerate":
        U = haar(rng, n)
        s = np.sort(rng.choice([0.5, 1.0, 2.0], n))[::-1]
        A = U @ np.diag(s) @ U.T
        return c, (A + A.T) / 2, True
    if c == "real_degenerate":
        O = real_orth(rng, n)
        s = rng.choice([-1.0, 1.0, 2.0], n)
        A = O @ np.diag(s) @ O.T
        return c, ((A + A.T) / 2).astype(complex), True
    if c == "all_equal":
        U = haar(rng, n)
        A = U @ U.T * 0.7
        return c, (A + A.T) / 2, True
    if c == "rank_deficient":
        U = haar(rng, n)
        s = np.sort(rng.uniform(0.2, 2, n))[::-1]
        s[int(rng.integers(1, n)):] = 0
        A = U @ np.diag(s) @ U.T
        return c, (A + A.T) / 2, True
    if c == "zero":
        return c, np.zeros((n, n), dtype=complex), True
    if c == "imaginary":
        A = rng.normal(size=(n, n))
        return c, 1j * (A + A.T), True
    if c == "diagonal":
        return c, np.diag(rng.normal(size=n) + 1j * rng.normal(size=n)), True
    if c == "invalid_nonsymmetric":
        A = rng.normal(size=(n, n)) + 1j * rng.normal(size=(n, n))
        A = A + A.T
        A[0, n - 1] += 1e-3
        return c, A, False
    if c == "invalid_nonsquare":
        return c, rng.normal(size=(n, n + 1)).astype(complex), False
    raise AssertionError(c)


def random_symplectic(rng, n, active=True, rs=None):
    O1 = rg.interferometer_S(haar(rng, n))
    O2 = rg.interferometer_S(haar(rng, n))
    if not active:
        return O1
    if rs is None:
        rs = rng.uniform(-1.0, 1.0, n)
    D = np.diag(np.concatenate([np.exp(-np.asarray(rs)), np.exp(np.asarray(rs))]))
    return O1 @ D @ O2


def symplectic_class(rng, n):
    classes = ["active", "active", "passive", "identity", "diag_squeezers", "degenerate_r", "some_unsqueezed",
               "two_unsqueezed", "single_gate", "invalid_nonsymplectic", "invalid_odd", "invalid_nonsquare"]
    if n == 1:
        classes = ["active", "passive", "identity", "diag_squeezers", "invalid_nonsymplectic", "invalid_odd"]
    c = str(rng.choice(classes))
    if c == "active":
        return c, random_symplectic(rng, n, True), True
    if c == "passive":
        return c, random_symplectic(rng, n, False), True
    if c == "identity":
        return c, np.eye(2 * n), True
    if c == "diag_squeezers":
        r = rng.uniform(-1, 1, n)
        return c, np.diag(np.concatenate([np.exp(-r), np.exp(r)])), True
    if c == "degenerate_r":
        r = np.full(n, rng.uniform(0.2, 1))
        return c, random_symplectic(rng, n, True, r), True
    if c == "some_unsqueezed":
        r = rng.uniform(0.2, 1, n)
        r[int(rng.integers(n))] = 0.0
        return c, random_symplectic(rng, n, True, r), True
    if c == "two_unsqueezed":
        r = rng.uniform(0.2, 1, n)
        idx = rng.choice(n, 2, replace=False)
        r[idx] = 0.0
        if n == 2:
            r = np.array([0.0, 0.0])
        return c, random_symplectic(rng, n, True, r), True
    if c == "single_gate":
        S = np.eye(2 * n)
        a, b = rng.choice(n, 2, replace=False)
        S2, _ = rg.gate_sd("S2gate", [rng.uniform(0.1, 1), rng.uniform(0, 2 * PI)])
        ix = [a, b, n + a, n + b]
        S[np.ix_(ix, ix)] = S2
        return c, S, True
    if c == "invalid_nonsymplectic":
        S = random_symplectic(rng, n, True)
        S[0, 0] += 1e-3
        return c, S, False
    if c == "invalid_odd":
        return c, np.eye(2 * n + 1), False
    if c == "invalid_nonsquare":
        return c, np.ones((2 * n, 2 * n + 2)), False
    raise AssertionError(c)


def covariance_class(rng, n):
    classes = ["pure", "mixed", "mixed", "degenerate_nu", "diagonal", "vacuum", "thermal", "scaled_hbar",
               "invalid_nonsymmetric", "invalid_odd", "invalid_indefinite", "invalid_nonsquare"]
    c = str(rng.choice(classes))
    S = random_symplectic(rng, n, True)
    if c == "pure":
        return c, S @ S.T, True
    if c == "mixed":
        nu = rng.uniform(1, 3, n)
        return c, S @ np.diag(np.concatenate([nu, nu])) @ S.T, True
    if c == "degenerate_nu":
        nu = np.full(n, rng.uniform(1, 3))
        return c, S @ np.diag(np.concatenate([nu, nu])) @ S.T, True
    if c == "diagonal":
        return c, np.diag(rng.uniform(0.5, 3, 2 * n)), True
    if c == "vacuum":
        return c, np.eye(2 * n), True
    if c == "thermal":
        nu = rng.uniform(1, 3, n)
        return c, np.diag(np.concatenate([nu, nu])), True
    if c == "scaled_hbar":
        nu = rng.uniform(1, 3, n)
        return c, 0.35 * S @ np.diag(np.concatenate([nu, nu])) @ S.T, True
    if c == "invalid_nonsymmetric":
        V = S @ S.T
        V[0, 2 * n - 1] += 1e-3
        return c, V, False
    if c == "invalid_odd":
        return c, np.eye(2 * n + 1), False
    if c == "invalid_indefinite":
        V = S @ S.T
        w, Q = np.linalg.eigh(V)
        w[0] = -abs(w[0])
        return c, Q @ np.diag(w) @ Q.T, False
    if c == "invalid_nonsquare":
        return c, np.ones((2 * n, 2 * n + 2)), False
    raise AssertionError(c)


def adjacency_class(rng, n):
    classes = ["er_graph", "er_graph", "weighted", "complex", "complete", "with_selfloops", "invalid_nonsymmetric",
               "invalid_nonsquare", "int_dtype_selfloops", "int_dtype_weights"]
    c = str(rng.choice(classes))
    if c == "int_dtype_selfloops":
        # a hand-typed 0/1 adjacency matrix with self-loops: integer dtype (arithmetic on it must not stay integer)
        A = (rng.random((n, n)) < 0.6).astype(int)
        A = np.triu(A, 0)
        A = A + A.T - np.diag(np.diag(A))
        A[0, 0] = 1
        A[0, n - 1] = A[n - 1, 0] = 1
        return c, A.astype(int), True
    if c == "int_dtype_weights":
        A = rng.integers(-2, 4, (n, n))
        A = np.triu(A, 0)
        A = A + A.T - np.diag(np.diag(A))
        if not A.any():
            A[0, n - 1] = A[n - 1, 0] = 1
        A[n - 1, n - 1] += 1
        return c, A.astype(int), True
    if c == "er_graph":
        while True:
            A = (rng.random((n, n)) < 0.6).astype(float)
            A = np.triu(A, 1)
            A = A + A.T
            if A.sum() > 0:
                return c, A, True
    if c == "weighted":
        A = rng.uniform(-1, 1, (n, n))
        return c, A + A.T, True
    if c == "complex":
        A = rng.normal(size=(n, n)) + 1j * rng.normal(size=(n, n))
        return c, A + A.T, True
    if c == "complete":
        return c, np.ones((n, n)) - np.eye(n), True
    if c == "with_selfloops":
        A = (rng.random((n, n)) < 0.6).astype(float)
        A = np.triu(A, 0)
        A = A + A.T
        A[0, 0] = 1.0
        return c, A, True
    if c == "invalid_nonsymmetric":
        A = rng.uniform(0, 1, (n, n))
        A = A + A.T
        A[0, n - 1] += 0.5
        return c, A, False
    if c == "invalid_nonsquare":
        return c, np.ones((n, n + 1)), False
    raise AssertionError(c)


def bipartite_class(rng, n):
    classes = ["real", "real", "symmetric", "complex", "binary", "invalid_nonsquare"]
    c = str(rng.choice(classes))
    if c == "real":
        return c, rng.uniform(-1, 1, (n, n)), True
    if c == "symmetric":
        A = rng.uniform(-1, 1, (n, n))
        return c, A + A.T, True
    if c == "complex":
        return c, rng.normal(size=(n, n)) + 1j * rng.normal(size=(n, n)), True
    if c == "binary":
        while True:
            A = (rng.random((n, n)) < 0.7).astype(float)
            if A.sum() > 0:
                return c, A, True
    if c == "invalid_nonsquare":
        return c, np.ones((n, n + 1)), False
    raise AssertionError(c)


# ---------------------------------------------------------------------------------------------
# scalar parameter values
# ---------------------------------------------------------------------------------------------

def angle(rng, p_boundary=0.35):
    if rng.random() < p_boundary:
        return float(rng.choice(BOUNDARY_ANGLES))
    return float(rng.uniform(-2 * PI, 2 * PI))


def small(rng, scale=0.3, p_zero=0.1):
    r = rng.random()
    if r < p_zero:
        return 0.0
    if r < p_zero + 0.05:
        return float(rng.choice([1e-14, -1e-14, 1e-9, -1e-9]))
    return float(rng.uniform(-scale, scale))


def transmissivity(rng):
    r = rng.random()
    if r < 0.08:
        return 0.0
    if r < 0.16:
        return 1.0
    if r < 0.2:
        return 1e-12
    if r < 0.25:
        return 0.5
    return float(rng.uniform(0.05, 1.0))
