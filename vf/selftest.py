"""Reference-model self-tests run by setup.sh. A failure aborts setup; it never becomes a property verdict."""
import sys

import numpy as np

from . import refgauss as rg


def main():
    rng = np.random.default_rng(0)
    # every documented gate is symplectic, dagger is the inverse
    for name, p, n in [("Dgate", [0.3, 0.2], 1), ("Sgate", [0.5, 1.1], 1), ("Rgate", [0.7], 1), ("Pgate", [0.4], 1),
                       ("BSgate", [0.4, 1.3], 2), ("S2gate", [0.4, 0.8], 2), ("CXgate", [0.6], 2),
                       ("CZgate", [-0.6], 2), ("MZgate", [0.3, 1.2], 2), ("sMZgate", [0.3, 1.2], 2)]:
        S, d = rg.gate_sd(name, p)
        assert rg.is_symplectic(S), name
        Si, di = rg.inv_sd(S, d)
        assert np.allclose(Si @ S, np.eye(2 * n)) and np.allclose(Si @ d + di, 0), name
    # closed forms
    S, _ = rg.gate_sd("Sgate", [0.5, 0.0])
    assert np.allclose(S, np.diag([np.exp(-0.5), np.exp(0.5)]))
    S, _ = rg.gate_sd("Pgate", [0.4])
    assert np.allclose(S, [[1, 0], [0.4, 1]])
    S, _ = rg.gate_sd("CXgate", [0.6])
    exp = np.eye(4); exp[1, 0] = 0.6; exp[2, 3] = -0.6
    assert np.allclose(S, exp)
    S, _ = rg.gate_sd("CZgate", [0.6])
    exp = np.eye(4); exp[2, 1] = 0.6; exp[3, 0] = 0.6
    assert np.allclose(S, exp)
    S, _ = rg.gate_sd("Rgate", [0.3])
    assert np.allclose(S, [[np.cos(0.3), -np.sin(0.3)], [np.sin(0.3), np.cos(0.3)]])
    # BS as interferometer: a -> cos a - e^{-i phi} sin b ; b -> e^{i phi} sin a + cos b
    th, ph = 0.4, 1.3
    U = np.array([[np.cos(th), -np.exp(-1j * ph) * np.sin(th)], [np.exp(1j * ph) * np.sin(th), np.cos(th)]])
    assert np.allclose(rg.gate_sd("BSgate", [th, ph])[0], rg.interferometer_S(U))
    # MZ(pi,pi) = 1 ; MZ(0,0) = iX ; documented product form
    assert np.allclose(rg.mz_unitary(np.pi, np.pi), np.eye(2))
    assert np.allclose(rg.mz_unitary(0, 0), 1j * np.array([[0, 1], [1, 0]]))
    BS = np.array([[1, 1j], [1j, 1]]) / np.sqrt(2)
    for a, b in rng.uniform(0, 6, (5, 2)):
        assert np.allclose(rg.mz_unitary(a, b), BS @ np.diag([np.exp(1j * a), 1]) @ BS @ np.diag([np.exp(1j * b), 1]))
    # two-mode squeezed vacuum: <n> = sinh^2 r per mode, pure
    g = rg.GState(2)
    S, d = rg.gate_sd("S2gate", [0.7, 0.3])
    g.apply_sd(S, d, [0, 1])
    assert abs(g.mean_photon(0) - np.sinh(0.7) ** 2) < 1e-12 and abs(np.linalg.det(g.V) - 1) < 1e-10
    # homodyne conditioning of TMSV at x=0 leaves a squeezed state; heterodyne gives a coherent-like state
    h = g.copy(); h.condition_homodyne(1, 0.0, 0.5)
    assert h.is_physical() and abs(np.linalg.det(h.reduced([0])[1]) - 1) < 1e-9
    h = g.copy(); h.condition_heterodyne(1, 0.2 + 0.1j)
    assert np.allclose(h.reduced([0])[1], np.eye(2), atol=1e-9)
    # loss composition
    X1, Y1, _ = rg.channel_xy("LossChannel", [0.5]); X2, Y2, _ = rg.channel_xy("LossChannel", [0.4])
    X3, Y3, _ = rg.channel_xy("LossChannel", [0.2])
    assert np.allclose(X2 @ X1, X3) and np.allclose(X2 @ Y1 @ X2.T + Y2, Y3)
    # net_action == step-by-step
    cmds = [("Sgate", [0.3, 0.1], [0], False), ("BSgate", [0.5, 0.2], [1, 0], True), ("LossChannel", [0.7], [1], False),
            ("Dgate", [0.2, 0.4], [0], False), ("Thermal", [0.3], [1], False), ("CXgate", [0.4], [0, 1], False)]
    X, Y, d = rg.net_action(cmds, 2)
    g0 = rg.random_state(rng, 2)
    g1 = g0.copy()
    for c in cmds:
        assert rg.apply_op(g1, *c)
    assert np.allclose(X @ g0.mu + d, g1.mu) and np.allclose(X @ g0.V @ X.T + Y, g1.V)
    try:
        from . import reffock
        reffock.selftest()
    except ImportError:
        pass
    print("selftest ok")
    return 0


if __name__ == "__main__":
    sys.exit(main())
