"""RefFock — small dense Fock-space reference for non-Gaussian states (1-2 modes).

Independent of strawberryfields and of The Walrus: ladder matrices, expm of the documented generators, Kraus
operators of the loss channel, analytic cat / number kets.  The reference cutoff is chosen far above the energy of
the generated states (default 28), so that its own truncation error is below 1e-10 for the workloads that use it
(vf.selftest compares it with RefGauss on Gaussian circuits).  hbar only enters the quadrature observables.
"""
import math

import numpy as np
from scipy.linalg import expm


def ladder(D):
    return np.diag(np.sqrt(np.arange(1, D)), 1).astype(complex)


class FState:
    """Density matrix on n modes (n <= 2), index order (i_0, i_1 ; j_0, j_1) flattened row-major."""

    def __init__(self, n, D=28):
        self.n = n
        self.D = D
        dim = D ** n
        self.rho = np.zeros((dim, dim), dtype=complex)
        self.rho[0, 0] = 1.0
        self.a = ladder(D)

    def copy(self):
        f = FState.__new__(FState)
        f.n, f.D, f.a = self.n, self.D, self.a
        f.rho = self.rho.copy()
        return f

    # -- embedding ------------------------------------------------------------------------------
    def _embed1(self, U, m):
        if self.n == 1:
            return U
        I = np.eye(self.D)
        return np.kron(U, I) if m == 0 else np.kron(I, U)

    def _embed2(self, U, modes):
        """U acts on (modes[0], modes[1]) with index order (first, second)."""
        if tuple(modes) == (0, 1):
            return U
        D = self.D
        T = U.reshape(D, D, D, D).transpose(1, 0, 3, 2).reshape(D * D, D * D)
        return T

    def apply_unitary(self, U):
        self.rho = U @ self.rho @ U.conj().T

    # -- gates (documented operators) ------------------------------------------------------------
    def gate(self, name, p, modes, dagger=False):
        a = self.a
        ad = a.conj().T
        D = self.D
        if name == "Dgate":
            al = p[0] * np.exp(1j * (p[1] if len(p) > 1 else 0.0))
            G = al * ad - np.conj(al) * a
        elif name == "Sgate":
            z = p[0] * np.exp(1j * (p[1] if len(p) > 1 else 0.0))
            G = 0.5 * (np.conj(z) * a @ a - z * ad @ ad)
        elif name == "Rgate":
            G = 1j * p[0] * ad @ a
        elif name == "Kgate":
            n = ad @ a
            G = 1j * p[0] * n @ n
        elif name == "BSgate":
            th = p[0]
            ph = p[1] if len(p) > 1 else 0.0
            I = np.eye(D)
            A, B = np.kron(a, I), np.kron(I, a)
            G = th * (np.exp(1j * ph) * A @ B.conj().T - np.exp(-1j * ph) * A.conj().T @ B)
        elif name == "S2gate":
            z = p[0] * np.exp(1j * (p[1] if len(p) > 1 else 0.0))
            I = np.eye(D)
            A, B = np.kron(a, I), np.kron(I, a)
            G = z * A.conj().T @ B.conj().T - np.conj(z) * A @ B  # documented: exp(z a1^dag a2^dag - z^* a1 a2)
        else:
            raise KeyError(name)
        U = expm(-G if dagger else G)
        U = self._embed1(U, modes[0]) if len(modes) == 1 else self._embed2(U, modes)
        self.apply_unitary(U)

    def loss(self, T, mode):
        D = self.D
        out = np.zeros_like(self.rho)
        for k in range(D):
            E = np.zeros((D, D), dtype=complex)
            for n in range(k, D):
                E[n - k, n] = math.sqrt(math.comb(n, k)) * T ** ((n - k) / 2.0) * (1 - T) ** (k / 2.0)
            Ef = self._embed1(E, mode)
            out += Ef @ self.rho @ Ef.conj().T
        self.rho = out

    # -- preparations -----------------------------------------------------------------------------
    def prepare_ket(self, ket, mode):
        """Replace `mode` (traced out) by the pure state `ket`."""
        D = self.D
        k = np.zeros(D, dtype=complex)
        k[: len(ket)] = ket[:D]
        P = np.outer(k, k.conj())
        if self.n == 1:
            self.rho = P
            return
        r = self.rho.reshape(D, D, D, D)  # i0 i1 j0 j1
        if mode == 0:
            other = np.einsum("aiaj->ij", r)
            self.rho = np.kron(P, other)
        else:
            other = np.einsum("iaja->ij", r)
            self.rho = np.kron(other, P)

    @staticmethod
    def cat_ket(a, phi, p, D):
        al = a * np.exp(1j * phi)
        th = np.pi * p
        c = np.array([(al ** n + np.exp(1j * th) * (-al) ** n) / math.sqrt(math.factorial(n)) for n in range(D)], dtype=complex)
        nrm = np.linalg.norm(c)
        return c / nrm

    @staticmethod
    def fock_ket(n, D):
        c = np.zeros(D, dtype=complex)
        c[n] = 1.0
        return c

    @staticmethod
    def coherent_ket(r, phi, D):
        al = r * np.exp(1j * phi)
        c = np.array([al ** n / math.sqrt(math.factorial(n)) for n in range(D)], dtype=complex)
        return c * np.exp(-abs(al) ** 2 / 2)

    # -- observables --------------------------------------------------------------------------------
    def reduced(self, mode):
        D = self.D
        if self.n == 1:
            return self.rho
        r = self.rho.reshape(D, D, D, D)
        return np.einsum("iaja->ij", r) if mode == 0 else np.einsum("aiaj->ij", r)

    def probs(self):
        D = self.D
        return np.real(np.diag(self.rho)).reshape([D] * self.n)

    def moments(self, hbar=2.0):
        """(mu, V) in xxpp order."""
        n, D = self.n, self.D
        a = self.a
        s = math.sqrt(hbar / 2.0)
        x1 = s * (a + a.conj().T)
        p1 = -1j * s * (a - a.conj().T)
        ops = [self._embed1(x1, m) for m in range(n)] + [self._embed1(p1, m) for m in range(n)]
        mu = np.array([np.real(np.trace(self.rho @ o)) for o in ops])
        V = np.zeros((2 * n, 2 * n))
        for i in range(2 * n):
            for j in range(2 * n):
                V[i, j] = np.real(np.trace(self.rho @ (ops[i] @ ops[j] + ops[j] @ ops[i]))) / 2 - mu[i] * mu[j]
        return mu, V

    def mean_var_photon(self, mode):
        r = self.reduced(mode)
        p = np.real(np.diag(r))
        k = np.arange(self.D)
        m = float(np.sum(k * p))
        return m, float(np.sum(k * k * p) - m * m)

    def parity(self, modes):
        P = self.probs()
        sign = np.ones_like(P)
        for m in modes:
            shape = [1] * self.n
            shape[m] = self.D
            sign = sign * ((-1.0) ** np.arange(self.D)).reshape(shape)
        return float(np.sum(P * sign))

    def fidelity_coherent(self, alphas):
        kets = [self.coherent_ket(abs(al), np.angle(al), self.D) for al in alphas]
        k = kets[0] if self.n == 1 else np.kron(kets[0], kets[1])
        return float(np.real(k.conj() @ self.rho @ k))

    def tail(self, cutoff):
        """Probability that some mode holds >= cutoff photons."""
        P = self.probs()
        sl = tuple(slice(0, cutoff) for _ in range(self.n))
        return float(max(0.0, 1.0 - np.sum(P[sl])))

    def trace(self):
        return float(np.real(np.trace(self.rho)))
