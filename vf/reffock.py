"""RefFock — small dense Fock-space reference for non-Gaussian states (1-2 modes).

Independent of strawberryfields and of The Walrus: ladder matrices, expm of the documented generators, Kraus
operators of the loss channel, analytic cat / number kets.  The reference cutoff is chosen far above the energy of
the generated states (default 28), so that its own truncation error is below 1e-10 for the workloads that use it
(vf.selftest compares it with RefGauss on Gaussian circuits).  hbar only enters the quadrature observables.
"""
import math

import numpy as np
from scipy.linalg import expm


def ladder(D):
    return np.diag(np.sqrt(np.arange(1, D)), 1).astype(complex)


class FState:
    """Density matrix on n modes (n <= 2), index order (i_0, i_1 ; j_0, j_1) flattened row-major."""

    def __init__(self, n, D=28):
        self.n = n
        self.D = D
        dim = D ** n
        self.rho = np.zeros((dim, dim), dtype=complex)
        self.rho[0, 0] = 1.0
        self.a = ladder(D)

    def copy(self):
        f = FState.__new__(FState)
        f.n, f.D, f.a = self.n, self.D, self.a
        f.rho = self.rho.copy()
        return f

    # -- embedding ------------------------------------------------------------------------------
    def _embed1(self, U, m):
        if self.n == 1:
            return U
        I = np.eye(self.D)
        return np.kron(U, I) if m == 0 else np.kron(I, U)

    def _embed2(self, U, modes):
        """U acts on (modes[0], modes[1]) with index order (first, second)."""
        if tuple(modes) == (0, 1):
            return U
        D = self.D
        T = U.reshape(D, D, D, D).transpose(1, 0, 3, 2).reshape(D * D, D * D)
        return T

    def apply_unitary(self, U):
        self.rho = U @ self.rho @ U.conj().T

    # -- gates (documented operators) ------------------------------------------------------------
    def gate(self, name, p, modes, dagger=False):
        a = self.a
        ad = a.conj().T
        D = self.D
        if name == "Dgate":
            al = p[0] * np.exp(1j * (p[1] if len(p) > 1 else 0.0))
            G = al * ad - np.conj(al) * a
        elif name == "Sgate":
            z = p[0] * np.exp(1j * (p[1] if len(p) > 1 else 0.0))
            G = 0.5 * (np.conj(z) * a @ a - z * ad @ ad)
        elif name == "Rgate":
            G = 1j * p[0] * ad @ a
        elif name == "Kgate":
            n = ad @ a
            G = 1j * p[0] * n @ n
        elif name == "Vgate":
            # documented: exp(i gamma x^3 / (3 hbar)), x = sqrt(hbar/2)(a + a^dag)  ->  gamma sqrt(hbar/2) / 6 * (a + a^dag)^3
            hb = p[1] if len(p) > 1 else 2.0
            X = a + ad
            G = 1j * p[0] * math.sqrt(hb / 2.0) / 6.0 * X @ X @ X
        elif name == "Pgate":
            # documented: exp(i s x^2 / (2 hbar)) = exp(i s (a + a^dag)^2 / 4)
            X = a + ad
            G = 1j * p[0] / 4.0 * X @ X
        elif name == "CKgate":
            I = np.eye(D)
            n = ad @ a
            G = 1j * p[0] * np.kron(n, I) @ np.kron(I, n)
        elif name == "BSgate":
            th = p[0]
            ph = p[1] if len(p) > 1 else 0.0
            I = np.eye(D)
            A, B = np.kron(a, I), np.kron(I, a)
            G = th * (np.exp(1j * ph) * A @ B.conj().T - np.exp(-1j * ph) * A.conj().T @ B)
        elif name == "S2gate":
            z = p[0] * np.exp(1j * (p[1] if len(p) > 1 else 0.0))
            I = np.eye(D)
            A, B = np.kron(a, I), np.kron(I, a)
            G = z * A.conj().T @ B.conj().T - np.conj(z) * A @ B  # documented: exp(z a1^dag a2^dag - z^* a1 a2)
        else:
            raise KeyError(name)
        U = expm(-G if dagger else G)
        U = self._embed1(U, modes[0]) if len(modes) == 1 else self._embed2(U, modes)
        self.apply_unitary(U)

    def loss(self, T, mode):
        D = self.D
        out = np.zeros_like(self.rho)
        for k in range(D):
            E = np.zeros((D, D), dtype=complex)
            for n in range(k, D):
                E[n - k, n] = math.sqrt(math.comb(n, k)) * T ** ((n - k) / 2.0) * (1 - T) ** (k / 2.0)
            Ef = self._embed1(E, mode)
            out += Ef @ self.rho @ Ef.conj().T
        self.rho = out

    # -- preparations -----------------------------------------------------------------------------
    def prepare_ket(self, ket, mode):
        """Replace `mode` (traced out) by the pure state `ket`."""
        D = self.D
        k = np.zeros(D, dtype=complex)
        k[: len(ket)] = ket[:D]
        P = np.outer(k, k.conj())
        if self.n == 1:
            self.rho = P
            return
        r = self.rho.reshape(D, D, D, D)  # i0 i1 j0 j1
        if mode == 0:
            other = np.einsum("aiaj->ij", r)
            self.rho = np.kron(P, other)
        else:
            other = np.einsum("iaja->ij", r)
            self.rho = np.kron(other, P)

    @staticmethod
    def cat_ket(a, phi, p, D):
        al = a * np.exp(1j * phi)
        th = np.pi * p
        c = np.array([(al ** n + np.exp(1j * th) * (-al) ** n) / math.sqrt(math.factorial(n)) for n in range(D)], dtype=complex)
        nrm = np.linalg.norm(c)
        return c / nrm

    @staticmethod
    def hermite_functions(kmax, x):
        """Oscillator eigenfunctions phi_k(x), k < kmax, for x = a + a^dag (hbar = 2): phi_0 ~ exp(-x^2 / 4)."""
        q = np.asarray(x, dtype=float) / math.sqrt(2.0)
        out = np.zeros((kmax,) + q.shape)
        out[0] = math.pi ** -0.25 * np.exp(-q * q / 2)
        if kmax > 1:
            out[1] = math.sqrt(2.0) * q * out[0]
        for k in range(2, kmax):
            out[k] = math.sqrt(2.0 / k) * q * out[k - 1] - math.sqrt((k - 1) / k) * out[k - 2]
        return out

    @staticmethod
    def gkp_ket(theta, phi, eps, D, nmax=80):
        """Finite-energy GKP state as documented: exp(-eps n) applied to cos(theta/2)|0> + e^{-i phi} sin(theta/2)|1>, with
        |mu> = sum_n |x = (2n + mu) sqrt(pi hbar)> (position eigenkets); Fock amplitudes <k|x> are the oscillator eigenfunctions.
        The dimensionless state does not depend on hbar (x / sqrt(hbar) is what enters)."""
        ns = np.arange(-nmax, nmax + 1)
        kets = []
        for mu in (0, 1):
            xs = (2 * ns + mu) * math.sqrt(2.0 * math.pi)  # positions in hbar = 2 units
            c = FState.hermite_functions(D, xs).sum(axis=1) * np.exp(-eps * np.arange(D))
            kets.append(c)
        ket = math.cos(theta / 2) * kets[0] + np.exp(-1j * phi) * math.sin(theta / 2) * kets[1]
        return (ket / np.linalg.norm(ket)).astype(complex)

    @staticmethod
    def fock_ket(n, D):
        c = np.zeros(D, dtype=complex)
        c[n] = 1.0
        return c

    @staticmethod
    def coherent_ket(r, phi, D):
        al = r * np.exp(1j * phi)
        c = np.array([al ** n / math.sqrt(math.factorial(n)) for n in range(D)], dtype=complex)
        return c * np.exp(-abs(al) ** 2 / 2)

    # -- observables --------------------------------------------------------------------------------
    def reduced(self, mode):
        D = self.D
        if self.n == 1:
            return self.rho
        r = self.rho.reshape(D, D, D, D)
        return np.einsum("iaja->ij", r) if mode == 0 else np.einsum("aiaj->ij", r)

    def probs(self):
        D = self.D
        return np.real(np.diag(self.rho)).reshape([D] * self.n)

    def moments(self, hbar=2.0):
        """(mu, V) in xxpp order."""
        n, D = self.n, self.D
        a = self.a
        s = math.sqrt(hbar / 2.0)
        x1 = s * (a + a.conj().T)
        p1 = -1j * s * (a - a.conj().T)
        ops = [self._embed1(x1, m) for m in range(n)] + [self._embed1(p1, m) for m in range(n)]
        mu = np.array([np.real(np.trace(self.rho @ o)) for o in ops])
        V = np.zeros((2 * n, 2 * n))
        for i in range(2 * n):
            for j in range(2 * n):
                V[i, j] = np.real(np.trace(self.rho @ (ops[i] @ ops[j] + ops[j] @ ops[i]))) / 2 - mu[i] * mu[j]
        return mu, V

    def mean_var_photon(self, mode):
        r = self.reduced(mode)
        p = np.real(np.diag(r))
        k = np.arange(self.D)
        m = float(np.sum(k * p))
        return m, float(np.sum(k * k * p) - m * m)

    def parity(self, modes):
        P = self.probs()
        sign = np.ones_like(P)
        for m in modes:
            shape = [1] * self.n
            shape[m] = self.D
            sign = sign * ((-1.0) ** np.arange(self.D)).reshape(shape)
        return float(np.sum(P * sign))

    def fidelity_coherent(self, alphas):
        kets = [self.coherent_ket(abs(al), np.angle(al), self.D) for al in alphas]
        k = kets[0] if self.n == 1 else np.kron(kets[0], kets[1])
        return float(np.real(k.conj() @ self.rho @ k))

    def tail(self, cutoff):
        """Probability that some mode holds >= cutoff photons."""
        P = self.probs()
        sl = tuple(slice(0, cutoff) for _ in range(self.n))
        return float(max(0.0, 1.0 - np.sum(P[sl])))

    def trace(self):
        return float(np.real(np.trace(self.rho)))


def selftest():
    """RefFock against RefGauss on Gaussian circuits, closed forms for cat / number kets and the loss channel."""
    from . import refgauss as rg

    rng = np.random.default_rng(1)
    # two-mode Gaussian circuit, both mode orders, dagger forms
    for trial in range(3):
        cmds = [("Sgate", [0.25, 0.4], [0], False), ("Dgate", [0.3, -0.7], [1], False),
                ("BSgate", [0.6, 1.1], [1, 0] if trial % 2 else [0, 1], trial == 2),
                ("S2gate", [0.2, 0.5], [0, 1] if trial % 2 else [1, 0], False), ("Rgate", [0.8], [1], trial == 1),
                ("LossChannel", [0.7], [0], False)]
        f = FState(2, D=24)
        g = rg.GState(2)
        for name, p, modes, dag in cmds:
            assert rg.apply_op(g, name, p, modes, dag)
            if name == "LossChannel":
                f.loss(p[0], modes[0])
            else:
                f.gate(name, p, modes, dag)
        mu, V = f.moments(2.0)
        assert np.allclose(mu, g.mu, atol=1e-7) and np.allclose(V, g.V, atol=1e-7), ("reffock vs refgauss", trial)
        assert abs(f.trace() - 1) < 1e-9
    # number state: <n> = n, variance 0, parity (-1)^n; loss gives the binomial distribution
    f = FState(1, D=20)
    f.prepare_ket(FState.fock_ket(3, 20), 0)
    assert np.allclose(f.mean_var_photon(0), (3.0, 0.0)) and abs(f.parity([0]) + 1) < 1e-12
    f.loss(0.6, 0)
    p = np.real(np.diag(f.rho))[:4]
    assert np.allclose(p, [math.comb(3, k) * 0.6 ** k * 0.4 ** (3 - k) for k in range(4)])
    # even / odd cat: parity +1 / -1, <n> = |a|^2 tanh / coth
    for par, fn in ((0, np.tanh), (1, lambda x: 1 / np.tanh(x))):
        f = FState(1, D=30)
        f.prepare_ket(FState.cat_ket(1.2, 0.3, par, 30), 0)
        assert abs(f.parity([0]) - (1 - 2 * par)) < 1e-10
        assert abs(f.mean_var_photon(0)[0] - 1.2 ** 2 * fn(1.2 ** 2)) < 1e-9
    # Kerr gate is diagonal: photon statistics untouched, coherent amplitude revival at kappa = pi
    f = FState(1, D=30)
    f.prepare_ket(FState.coherent_ket(0.9, 0.2, 30), 0)
    p0 = np.real(np.diag(f.rho)).copy()
    f.gate("Kgate", [np.pi], [0])
    assert np.allclose(np.real(np.diag(f.rho)), p0)
    assert abs(f.fidelity_coherent([-0.9 * np.exp(0.2j)]) - 1) < 1e-9
    # preparation replaces the target and keeps the other mode's reduced state
    f = FState(2, D=16)
    f.gate("S2gate", [0.3, 0.0], [0, 1])
    r1 = f.reduced(1).copy()
    f.prepare_ket(FState.fock_ket(1, 16), 0)
    assert np.allclose(f.reduced(1), r1) and abs(f.mean_var_photon(0)[0] - 1) < 1e-12
